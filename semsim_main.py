#!/venv/bin/python
"""Entry point of the checks: ./check <property> [--tier quick|thorough] [--replay FILE] ...

Exit codes: 0 property held on everything explored (KNOWN-FINDING lines allowed);
            1 with a line `VIOLATION property=<id> replay=<path>`;
            2 HARNESS-ERROR (never a verdict about the property).
"""
import argparse
import json
import os
import sys
import time
import traceback

HERE = os.path.dirname(os.path.abspath(__file__))
sys.path.insert(0, HERE)


def main():
    ap = argparse.ArgumentParser()
    ap.add_argument("prop", choices=["C13", "C14", "C19"])
    ap.add_argument("--tier", default=os.environ.get("VERIF_TIER") or "quick", choices=["quick", "thorough"])
    ap.add_argument("--repo", default=os.environ.get("SEMSIM_REPO", "/repo"))
    ap.add_argument("--seed", type=int, default=None)
    ap.add_argument("--runs", type=int, default=None)
    ap.add_argument("--budget", type=float, default=None, help="wall seconds for the search (thorough)")
    ap.add_argument("--workers", type=int, default=int(os.environ.get("SEMSIM_WORKERS", "16")))
    ap.add_argument("--replay", default=None)
    ap.add_argument("--emit", default=None, help="internal: print digests of the given run indices")
    ap.add_argument("--no-evidence", action="store_true")
    ap.add_argument("--evidence-dir", default=os.path.join(HERE, "evidence"))
    ap.add_argument("--replay-dir", default=os.path.join(HERE, "replays"))
    ap.add_argument("--start", type=int, default=0)
    ap.add_argument("--fingerprints", default=None, help="write {run index: fingerprint} JSON here")
    args = ap.parse_args()

    # one BLAS thread (bit-stable linear algebra, fork-safe) and a fixed string-hash salt, whatever the caller's
    # environment says; a PYTHONHASHSEED chosen by the caller is kept
    want = {"PYTHONDONTWRITEBYTECODE": "1", "OMP_NUM_THREADS": "1", "OPENBLAS_NUM_THREADS": "1",
            "MKL_NUM_THREADS": "1"}
    if os.environ.get("PYTHONHASHSEED") is None or any(os.environ.get(k) != v for k, v in want.items()):
        env = dict(os.environ, **want)
        env.setdefault("PYTHONHASHSEED", "0")
        os.execve(sys.executable, [sys.executable, "-B"] + sys.argv, env)

    if args.seed is None:
        try:
            args.seed = int(os.environ.get("VERIF_SEED", "0") or 0)
        except ValueError:
            args.seed = 0
    if args.budget is None and os.environ.get("VERIF_BUDGET_S"):
        args.budget = float(os.environ["VERIF_BUDGET_S"])

    from semsim import driver
    try:
        rc = driver.run(args)
    except driver.HarnessError as e:
        print("HARNESS-ERROR: %s" % e)
        rc = 2
    except Exception:
        traceback.print_exc()
        print("HARNESS-ERROR: unexpected exception in the checker (not a verdict)")
        rc = 2
    sys.stdout.flush()
    sys.exit(rc)


if __name__ == "__main__":
    main()
