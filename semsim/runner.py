"""Batch runner: seeded search over histories on 16 forked workers; every run and every
pristine evaluation in its own forked child (DESIGN 2.5, 2.8)."""
import faulthandler
import importlib
import json
import os
import subprocess
import sys
import time
from collections import Counter
from concurrent.futures import ProcessPoolExecutor, wait, FIRST_COMPLETED
import multiprocessing

from . import boot
from .forkrun import in_fork, ChildFailure
from .seeds import run_seed as mk_run_seed

MODS = {"C13": "semsim.c13", "C14": "semsim.c14", "C19": "semsim.c19"}

_ctx = {}


def setup(prop, repo):
    """Boot the world process: patch, import sempler from `repo` (never runs an op here)."""
    import warnings
    # warnings of the system under test are not verdicts and are not printed; the FILTERS stay as Python sets them
    # up (a global "ignore" would hide behaviour of the library that depends on a warning being emitted)
    warnings.showwarning = lambda *a, **k: None
    S = boot.boot(repo, with_peer=(prop == "C19"))
    mod = importlib.import_module(MODS[prop])
    _ctx.update(prop=prop, S=S, mod=mod, repo=repo)
    return mod


# ---------------------------------------------------------------------------
# one run

def _child_run(run_seed, ops, opts):
    mod, S = _ctx["mod"], _ctx["S"]
    cfg = None
    # simulated time, from the run seed; in a third of the runs the clock stands still (all calls within "one second")
    boot.install_clock(1.7e9 + (run_seed % 100000) * 86400.0, frozen=(run_seed // 7) % 3 == 0)
    opts = dict(opts)
    want_ops = opts.pop("_want_ops", False)
    deep = opts.pop("deep", False)
    if ops is None:
        cfg, ops = mod.generate(run_seed, deep=deep)
    w, obligations = mod.execute(S, run_seed, ops, **opts)
    res = {
        "fp": w.fingerprint(), "violations": [dict(v) for v in w.violations], "obligations": obligations,
        "probes": dict(w.probes), "faults": dict(w.faults), "apis": dict(w.apis),
        "distinct": sorted(getattr(w, "distinct", ()), key=repr), "steps": len(w.log),
        "seeded": mod.seeded_digests(w) if hasattr(mod, "seeded_digests") else [],
        "nops": len(ops), "cfg": cfg,
    }
    if want_ops:
        res["ops"] = ops
    return res


def _child_pristine(ops):
    boot.install_clock(2.1e9)        # the reference world lives at another (simulated) time
    return _ctx["mod"].pristine_eval(_ctx["S"], ops)


def _dg(x):
    return x[0] if isinstance(x, tuple) else x


def evaluate(run_seed, ops=None, pristine="budget", want_ops=False, extra_opts=None):
    """Execute one run (generated from run_seed, or the given op list) in a fresh fork, then its
    pristine obligations each in another fresh fork.  Returns the run result with violations."""
    opts = dict(extra_opts or {})
    if pristine == "all":
        opts["pristine_budget"] = None
    elif pristine == "none":
        opts["pristine_budget"] = 0
    if want_ops:
        opts["_want_ops"] = True
    res = in_fork(_child_run, run_seed, ops, opts, timeout=180)
    npr = 0
    for ob in res["obligations"]:
        got = in_fork(_child_pristine, ob["ops"], timeout=60)
        npr += 1
        eq = getattr(_ctx["mod"], "pristine_equal", None)
        same = eq(got, ob["expect"]) if eq else got == ob["expect"]
        if ob.get("both_ok_only") and (str(_dg(got)).startswith("exc") or str(_dg(ob["expect"])).startswith("exc")):
            same = True
        if not same:
            res["violations"].append({"cls": ob.get("cls", "pristine_differs"), "site": ob["site"],
                                      "step": ob["step"],
                                      "detail": {"variant": ob.get("variant"), "aged": _dg(ob["expect"]),
                                                 "pristine": _dg(got)}})
    res["pristine_evals"] = npr
    return res


# ---------------------------------------------------------------------------
# worker side

def _worker_chunk(verif_seed, idxs, pristine, keep_seeded, nsamples, deep=False):
    faulthandler.dump_traceback_later(600, exit=True)
    prop = _ctx["prop"]
    agg = {"runs": 0, "steps": 0, "nops": 0, "pristine_evals": 0, "probes": Counter(), "faults": Counter(),
           "apis": Counter(), "distinct": set(), "violating": [], "seeded": {}, "fps": {}, "samples": [],
           "harness_errors": []}
    for idx in idxs:
        rs = mk_run_seed(verif_seed, prop, idx)
        try:
            res = evaluate(rs, None, pristine=pristine, want_ops=(idx < nsamples), extra_opts={"deep": deep})
        except ChildFailure as e:
            agg["harness_errors"].append((idx, str(e)[-2000:]))
            continue
        agg["runs"] += 1
        agg["steps"] += res["steps"]
        agg["nops"] += res["nops"]
        agg["pristine_evals"] += res["pristine_evals"]
        agg["probes"].update(res["probes"])
        agg["faults"].update(res["faults"])
        agg["apis"].update(res["apis"])
        agg["distinct"].update(tuple(d) for d in res["distinct"])
        agg["fps"][idx] = res["fp"]
        if res["violations"]:
            agg["violating"].append((idx, res["violations"]))
        if idx in keep_seeded:
            agg["seeded"][idx] = res["seeded"]
        if idx < nsamples:
            agg["samples"].append({"run_index": idx, "config": res["cfg"], "ops": res.get("ops")})
    faulthandler.cancel_dump_traceback_later()
    return agg


def run_batch(prop, verif_seed, n_runs=None, budget_s=None, workers=16, pristine="budget", chunk=40,
              xproc=0, nsamples=2, start=0, stop_on_violation=True, keep_fps=False, deep=False):
    """Run indices start.. on `workers` forked workers, until n_runs done or budget_s elapsed."""
    t0 = time.time()
    total = {"runs": 0, "steps": 0, "nops": 0, "pristine_evals": 0, "probes": Counter(), "faults": Counter(),
             "apis": Counter(), "distinct": set(), "violating": [], "seeded": {}, "fps": {}, "samples": [],
             "harness_errors": []}
    keep_seeded = set(range(start, start + xproc))
    ctx = multiprocessing.get_context("fork")
    nxt = start
    end = None if n_runs is None else start + n_runs
    pending = set()
    with ProcessPoolExecutor(max_workers=workers, mp_context=ctx) as ex:
        def submit():
            nonlocal nxt
            hi = nxt + chunk if end is None else min(nxt + chunk, end)
            if hi <= nxt:
                return False
            pending.add(ex.submit(_worker_chunk, verif_seed, list(range(nxt, hi)), pristine, keep_seeded, nsamples, deep))
            nxt = hi
            return True
        stop = False
        while True:
            while not stop and len(pending) < (workers * 2 if budget_s is None else workers + 2):
                if budget_s is not None and time.time() - t0 > budget_s:
                    stop = True
                    break
                if not submit():
                    stop = True
                    break
            if not pending:
                break
            done, _ = wait(pending, return_when=FIRST_COMPLETED)
            for f in done:
                pending.discard(f)
                agg = f.result()
                for k in ("runs", "steps", "nops", "pristine_evals"):
                    total[k] += agg[k]
                for k in ("probes", "faults", "apis"):
                    total[k].update(agg[k])
                total["distinct"].update(agg["distinct"])
                total["violating"].extend(agg["violating"])
                total["seeded"].update(agg["seeded"])
                total["fps"].update(agg["fps"])
                total["samples"].extend(agg["samples"])
                total["harness_errors"].extend(agg["harness_errors"])
                if agg["violating"] and stop_on_violation:
                    stop = True
    total["wall_s"] = time.time() - t0
    total["next_index"] = nxt
    total["violating"].sort(key=lambda t: t[0])
    total["samples"].sort(key=lambda s: s["run_index"])
    return total


# ---------------------------------------------------------------------------
# cross-process oracle: the same runs in a fresh interpreter with another PYTHONHASHSEED

def fresh_interpreter_digests(prop, repo, verif_seed, idxs, hashseed="12345", deep=False):
    from concurrent.futures import ThreadPoolExecutor
    env = dict(os.environ, PYTHONHASHSEED=str(hashseed), PYTHONDONTWRITEBYTECODE="1")

    def one(part):
        cmd = [sys.executable, "-B", os.path.join(boot.VERIF, "semsim_main.py"), prop, "--repo", repo,
               "--emit", ",".join(str(i) for i in part), "--seed", str(verif_seed)] + \
              (["--tier", "thorough"] if deep else [])
        p = subprocess.run(cmd, env=env, capture_output=True, text=True, timeout=900)
        if p.returncode != 0:
            raise ChildFailure("fresh interpreter failed: %s %s" % (p.stdout[-1000:], p.stderr[-2000:]))
        line = [ln for ln in p.stdout.splitlines() if ln.startswith("EMIT ")][-1]
        return json.loads(line[5:])
    idxs = list(idxs)
    nparts = max(1, min(8, len(idxs) // 8))
    parts = [idxs[i::nparts] for i in range(nparts)]
    out = {}
    with ThreadPoolExecutor(max_workers=nparts) as ex:
        for d in ex.map(one, parts):
            out.update(d)
    return out
