"""Canonical digests, JSON literal encoding and deep snapshots (DESIGN 2.2).

digest(x)  : SHA-1 over a canonical, type-tagged serialisation (arrays: dtype/shape/bytes).
enc / dec  : lossless JSON encoding of the values that appear in op records.
arrays_of  : every ndarray reachable from a value (for aliasing checks).
"""
import functools
import hashlib
import struct
import types

import numpy as np


# ---------------------------------------------------------------------------
# canonical byte stream

def _feed(h, x, depth=0):
    if depth > 12:
        h.update(b"<deep>")
        return
    if x is None:
        h.update(b"N")
    elif isinstance(x, (bool, np.bool_)):
        h.update(b"b1" if x else b"b0")
        h.update(b"n" if isinstance(x, np.bool_) else b"p")
    elif isinstance(x, np.ndarray):
        h.update(b"A")
        h.update(x.dtype.str.encode())
        h.update(repr(x.shape).encode())
        if x.dtype == object:
            for e in x.ravel():
                _feed(h, e, depth + 1)
        else:
            h.update(np.ascontiguousarray(x).tobytes())
    elif isinstance(x, np.generic):
        h.update(b"S")
        h.update(x.dtype.str.encode())
        h.update(x.tobytes())
    elif isinstance(x, int):
        h.update(b"i")
        h.update(str(x).encode())
    elif isinstance(x, float):
        h.update(b"f")
        h.update(struct.pack("<d", x))
    elif isinstance(x, complex):
        h.update(b"c")
        h.update(struct.pack("<dd", x.real, x.imag))
    elif isinstance(x, str):
        h.update(b"s")
        h.update(x.encode())
        h.update(b"\0")
    elif isinstance(x, bytes):
        h.update(b"y")
        h.update(x)
        h.update(b"\0")
    elif isinstance(x, (list, tuple)):
        h.update(b"L(" if isinstance(x, list) else b"T(")
        for e in x:
            _feed(h, e, depth + 1)
            h.update(b",")
        h.update(b")")
    elif isinstance(x, (set, frozenset)):
        h.update(b"E(")
        for d in sorted(digest(e) for e in x):
            h.update(d.encode())
        h.update(b")")
    elif isinstance(x, dict):
        h.update(b"D(")
        items = sorted(((digest(k), k, v) for k, v in x.items()), key=lambda t: t[0])
        for _, k, v in items:
            _feed(h, k, depth + 1)
            h.update(b":")
            _feed(h, v, depth + 1)
            h.update(b",")
        h.update(b")")
    elif isinstance(x, BaseException):
        h.update(b"X")
        h.update(type(x).__name__.encode())
    elif isinstance(x, range):
        h.update(("R%r" % (x,)).encode())
    elif isinstance(x, functools.partial):
        h.update(b"P(")
        _feed(h, x.func, depth + 1)
        _feed(h, list(x.args), depth + 1)
        _feed(h, dict(x.keywords), depth + 1)
        h.update(b")")
    elif type(x).__module__.startswith("pandas") and hasattr(x, "to_numpy"):
        h.update(b"PD")
        h.update(type(x).__name__.encode())
        _feed(h, np.asarray(x), depth + 1)
    elif isinstance(x, (types.FunctionType, types.BuiltinFunctionType, np.ufunc, types.MethodType)):
        h.update(b"F")
        h.update(getattr(x, "__qualname__", getattr(x, "__name__", "fn")).encode())
        bound = getattr(x, "__self__", None)
        if isinstance(x, types.MethodType) and bound is not None and hasattr(bound, "__dict__"):
            _feed(h, bound, depth + 1)
        clo = getattr(x, "__closure__", None)
        if clo:
            for c in clo:
                try:
                    _feed(h, c.cell_contents, depth + 1)
                except ValueError:
                    h.update(b"<empty>")
    elif hasattr(x, "__dict__"):
        # model objects (LGANM, ANM, NormalDistribution, DRFNet), callable instances, ...
        h.update(b"O")
        h.update(type(x).__name__.encode())
        vol = getattr(type(x), "_semsim_volatile", ())
        for k in sorted(vars(x)):
            if k in vol or k.startswith("_"):
                continue        # underscore attributes: lazy private caches are legal (DESIGN 4.2/1)
            h.update(k.encode())
            h.update(b"=")
            _feed(h, vars(x)[k], depth + 1)
            h.update(b";")
    else:
        h.update(b"?")
        h.update(type(x).__name__.encode())


def digest(x):
    h = hashlib.sha1()
    _feed(h, x)
    return h.hexdigest()[:20]


def outcome_digest(kind, value):
    """kind: 'ok' | 'exc'.  For exceptions only the class counts."""
    if kind == "exc":
        return "exc:" + type(value).__name__
    return "ok:" + digest(value)


# ---------------------------------------------------------------------------
# arrays reachable from a value

def arrays_of(x, out=None, depth=0, seen=None):
    if out is None:
        out = []
    if seen is None:
        seen = set()
    if depth > 8 or id(x) in seen:
        return out
    if isinstance(x, np.ndarray):
        out.append(x)
        if x.dtype == object:
            seen.add(id(x))
            for e in x.ravel():
                arrays_of(e, out, depth + 1, seen)
    elif isinstance(x, (list, tuple, set, frozenset)):
        seen.add(id(x))
        for e in x:
            arrays_of(e, out, depth + 1, seen)
    elif isinstance(x, dict):
        seen.add(id(x))
        for k, v in x.items():
            arrays_of(k, out, depth + 1, seen)
            arrays_of(v, out, depth + 1, seen)
    elif isinstance(x, functools.partial):
        seen.add(id(x))
        arrays_of(list(x.args), out, depth + 1, seen)
        arrays_of(dict(x.keywords), out, depth + 1, seen)
    elif type(x).__module__.startswith("pandas") and hasattr(x, "to_numpy"):
        try:
            out.append(np.asarray(x))          # a view of the frame's buffer wherever pandas can give one
        except Exception:
            pass
    elif isinstance(x, types.MethodType):
        seen.add(id(x))
        arrays_of(getattr(x, "__self__", None), out, depth + 1, seen)
    elif isinstance(x, (types.FunctionType,)):
        clo = getattr(x, "__closure__", None)
        if clo:
            seen.add(id(x))
            for c in clo:
                try:
                    arrays_of(c.cell_contents, out, depth + 1, seen)
                except ValueError:
                    pass
    elif isinstance(x, (str, bytes, int, float, bool, type(None), np.generic, type, types.ModuleType,
                        types.BuiltinFunctionType, np.ufunc)):
        pass
    elif hasattr(x, "__dict__"):
        seen.add(id(x))
        for v in vars(x).values():
            arrays_of(v, out, depth + 1, seen)
    return out


# ---------------------------------------------------------------------------
# JSON literals

def enc(x):
    """Encode a Python / numpy value as JSON-serialisable data (lossless for what we use)."""
    if x is None or isinstance(x, (bool, str)):
        return x
    if isinstance(x, np.ndarray):
        a = np.ascontiguousarray(x)
        d = {"dtype": a.dtype.str, "shape": list(a.shape)}
        if x.ndim >= 2 and x.flags.f_contiguous and not x.flags.c_contiguous:
            d["order"] = "F"
        data = a.ravel().tolist()
        ok = False
        if a.dtype.kind in "iufb":
            try:
                back = np.array(data, dtype=a.dtype).reshape(a.shape) if a.size else np.zeros(a.shape, a.dtype)
                ok = back.tobytes() == a.tobytes()
            except Exception:
                ok = False
        if ok:
            d["data"] = data
        else:
            d["hex"] = a.tobytes().hex()
        return {"__nd__": d}
    if isinstance(x, np.bool_):
        return {"__np__": ["bool", bool(x)]}
    if isinstance(x, np.generic):
        return {"__np__": [x.dtype.str, x.item()]}
    if isinstance(x, int):
        return x
    if isinstance(x, float):
        if x != x or x in (float("inf"), float("-inf")):
            return {"__f__": repr(x)}
        return x
    if isinstance(x, tuple):
        return {"__tuple__": [enc(e) for e in x]}
    if isinstance(x, list):
        return [enc(e) for e in x]
    if isinstance(x, frozenset):
        return {"__fset__": [enc(e) for e in sorted(x, key=lambda e: (str(type(e)), e))]}
    if isinstance(x, set):
        return {"__set__": [enc(e) for e in sorted(x, key=lambda e: (str(type(e)), e))]}
    if isinstance(x, dict):
        return {"__dict__": [[enc(k), enc(v)] for k, v in x.items()]}
    if isinstance(x, range):
        return {"__range__": [x.start, x.stop, x.step]}
    raise TypeError("cannot encode %r" % type(x))


def dec(j):
    if j is None or isinstance(j, (bool, int, float, str)):
        return j
    if isinstance(j, list):
        return [dec(e) for e in j]
    if isinstance(j, dict):
        if "__nd__" in j:
            d = j["__nd__"]
            dt = np.dtype(d["dtype"])
            shape = tuple(d["shape"])
            if "hex" in d:
                a = np.frombuffer(bytes.fromhex(d["hex"]), dtype=dt).reshape(shape).copy()
            else:
                a = np.array(d["data"], dtype=dt).reshape(shape) if len(d["data"]) else np.zeros(shape, dt)
            if d.get("order") == "F":
                a = np.asfortranarray(a)
            return a
        if "__np__" in j:
            t, v = j["__np__"]
            return np.bool_(v) if t == "bool" else np.dtype(t).type(v)
        if "__f__" in j:
            return float(j["__f__"])
        if "__tuple__" in j:
            return tuple(dec(e) for e in j["__tuple__"])
        if "__set__" in j:
            return set(dec(e) for e in j["__set__"])
        if "__fset__" in j:
            return frozenset(dec(e) for e in j["__fset__"])
        if "__dict__" in j:
            return dict((dec(k), dec(v)) for k, v in j["__dict__"])
        if "__range__" in j:
            return range(*j["__range__"])
        raise ValueError("unknown literal %r" % (list(j.keys()),))
    raise TypeError("cannot decode %r" % type(j))


def jkey(j):
    """Stable key of a JSON value (dict key order independent)."""
    import json
    return hashlib.sha1(json.dumps(j, sort_keys=True, allow_nan=True).encode()).hexdigest()[:16]


# ---------------------------------------------------------------------------
# plain (picklable, history-free) form of an outcome and tolerant comparison

def plain(x, depth=0):
    """Deep, picklable copy of a result in a neutral form (models -> tagged dicts)."""
    if depth > 10:
        return "<deep>"
    if isinstance(x, np.ndarray):
        if x.dtype == object:
            return ("objarray", [plain(e, depth + 1) for e in x.ravel()])
        return np.array(x, copy=True, order="C")
    if x is None or isinstance(x, (bool, int, float, complex, str, bytes, np.generic)):
        return x
    if isinstance(x, list):
        return [plain(e, depth + 1) for e in x]
    if isinstance(x, tuple):
        return tuple(plain(e, depth + 1) for e in x)
    if isinstance(x, (set, frozenset)):
        return ("set", sorted((plain(e, depth + 1) for e in x), key=digest))
    if isinstance(x, dict):
        return ("dict", sorted(((plain(k, depth + 1), plain(v, depth + 1)) for k, v in x.items()),
                               key=lambda kv: digest(kv[0])))
    if isinstance(x, BaseException):
        return ("exc", type(x).__name__)
    if isinstance(x, range):
        return ("range", x.start, x.stop, x.step)
    if isinstance(x, (types.FunctionType, types.BuiltinFunctionType, np.ufunc, types.MethodType, functools.partial)):
        return ("fn", digest(x))
    if hasattr(x, "__dict__"):
        return ("obj", type(x).__name__, sorted((k, plain(v, depth + 1)) for k, v in vars(x).items()))
    return ("?", type(x).__name__)


def equalish(a, b, rtol=1e-9, atol=1e-12):
    """Structural equality with a floating-point tolerance far below anything the simulator
    generates: no BLAS-level nondeterminism can turn into an alarm (DESIGN 4.2/2)."""
    if type(a) is not type(b):
        return False
    if isinstance(a, np.ndarray):
        if a.dtype != b.dtype or a.shape != b.shape:
            return False
        if a.dtype.kind in "fc":
            return bool(np.allclose(a, b, rtol=rtol, atol=atol, equal_nan=True))
        return bool(np.array_equal(a, b))
    if isinstance(a, (float, np.floating)):
        return bool(np.isclose(a, b, rtol=rtol, atol=atol, equal_nan=True))
    if isinstance(a, (list, tuple)):
        return len(a) == len(b) and all(equalish(x, y, rtol, atol) for x, y in zip(a, b))
    try:
        return bool(a == b)
    except Exception:
        return False
