"""Orchestration of one check invocation: search, cross-process oracle, minimisation,
replay files, known findings, evidence (DESIGN 2.6-2.9)."""
import json
import os
import subprocess
import sys
import time

from . import runner
from .forkrun import ChildFailure
from .minimize import ddmin, shrink_fields
from .seeds import run_seed as mk_run_seed


class HarnessError(Exception):
    pass


TIERS = {
    # runs for quick; default budget seconds for thorough
    "C13": {"quick_runs": 5000, "thorough_budget": 900, "xproc_quick": 48, "xproc_thorough": 320},
    "C14": {"quick_runs": 5000, "thorough_budget": 900, "xproc_quick": 0, "xproc_thorough": 0},
    "C19": {"quick_runs": 2500, "thorough_budget": 900, "xproc_quick": 32, "xproc_thorough": 160},
}


def load_known():
    path = os.path.join(runner.boot.VERIF, "known_findings.json")
    if not os.path.exists(path):
        return {"open": [], "fixed": []}
    with open(path) as f:
        return json.load(f)


def is_known(known, prop, v):
    for k in known.get("open", []):
        if k["property"] == prop and k["cls"] == v["cls"] and k["site"] == v["site"]:
            return k
    return None


def vkey(v):
    return (v["cls"], v["site"])


# ---------------------------------------------------------------------------

def minimise(prop, mod, rs, ops, target):
    """ddmin + argument reduction keeping the same violation class at the same site."""
    pristine = "all" if target[0].startswith("pristine") or target[0].endswith("pristine") else "none"
    ntests = [0]

    def test(cand):
        ntests[0] += 1
        try:
            res = runner.evaluate(rs, cand, pristine=pristine)
        except ChildFailure:
            return False
        return any(vkey(v) == target for v in res["violations"])

    if not test(ops):
        # needs pristine obligations or is not reproducible in isolation
        pristine = "all"
        if not test(ops):
            return ops, False, ntests[0]
    cur, _ = ddmin(ops, test)
    if hasattr(mod, "simplify"):
        cur, _ = shrink_fields(cur, test, mod.simplify)
        cur, _ = ddmin(cur, test, max_tests=100)
    return cur, True, ntests[0]


def write_replay(args, prop, idx, rs, ops, v, minimised, original_len, cfg=None):
    os.makedirs(args.replay_dir, exist_ok=True)
    name = "%s_seed%d_run%d_%s.json" % (prop, args.seed, idx, v["cls"])
    path = os.path.join(args.replay_dir, name)
    head = {"property": prop, "verif_seed": args.seed, "run_index": idx, "run_seed": rs,
            "config": cfg, "minimised": minimised, "original_ops": original_len, "violation": v}
    with open(path, "w") as f:
        body = json.dumps(head, indent=1, allow_nan=True, default=str)
        f.write(body[:-2] + ',\n "ops": [\n')
        f.write(",\n".join("  " + json.dumps(o, allow_nan=True) for o in ops))
        f.write("\n ]\n}\n")
    return path


def replay_in_fresh_process(args, prop, path):
    """The replay must reproduce in a fresh interpreter with another PYTHONHASHSEED."""
    env = dict(os.environ, PYTHONHASHSEED="4242", PYTHONDONTWRITEBYTECODE="1")
    cmd = [sys.executable, "-B", os.path.join(runner.boot.VERIF, "semsim_main.py"), prop, "--repo", args.repo,
           "--replay", path, "--no-evidence"]
    p = subprocess.run(cmd, env=env, capture_output=True, text=True, timeout=900)
    return p.returncode == 1 and "VIOLATION property=%s" % prop in p.stdout


def do_replay(args, prop, mod):
    with open(args.replay) as f:
        rp = json.load(f)
    target = (rp["violation"]["cls"], rp["violation"]["site"])
    extra = {}
    res = runner.evaluate(rp["run_seed"], rp["ops"], pristine="all")
    vs = list(res["violations"])
    if target[0] == "cross_process_differs":
        vs += xproc_replay(args, prop, rp, res)
    hit = [v for v in vs if vkey(v) == target]
    print("replay %s: %d ops, fingerprint %s" % (args.replay, len(rp["ops"]), res["fp"]))
    if hit:
        print("reproduced: %s at %s, step %s: %s" % (hit[0]["cls"], hit[0]["site"], hit[0]["step"],
                                                      json.dumps(hit[0]["detail"], default=str)[:600]))
        print("VIOLATION property=%s replay=%s" % (prop, os.path.abspath(args.replay)))
        return 1
    if vs:
        print("other violations on replay: %s" % sorted({vkey(v) for v in vs}))
        print("VIOLATION property=%s replay=%s" % (prop, os.path.abspath(args.replay)))
        return 1
    print("NOT REPRODUCED: the recorded violation does not occur on this tree")
    return 0


def xproc_replay(args, prop, rp, res):
    import tempfile
    out = []
    with tempfile.NamedTemporaryFile("w", suffix=".json", delete=False, dir=args.replay_dir) as f:
        json.dump(rp, f)
        tmp = f.name
    try:
        env = dict(os.environ, PYTHONHASHSEED="777", PYTHONDONTWRITEBYTECODE="1")
        cmd = [sys.executable, "-B", os.path.join(runner.boot.VERIF, "semsim_main.py"), prop, "--repo", args.repo,
               "--emit", "file:" + tmp]
        p = subprocess.run(cmd, env=env, capture_output=True, text=True, timeout=600)
        line = [ln for ln in p.stdout.splitlines() if ln.startswith("EMIT ")][-1]
        other = json.loads(line[5:])["file"]
        mine = [list(t) for t in res["seeded"]]
        if other != mine:
            out.append({"cls": "cross_process_differs", "site": rp["violation"]["site"], "step": -1,
                        "detail": {"this_process": mine[:6], "fresh_interpreter": other[:6]}})
    finally:
        os.unlink(tmp)
    return out


def do_emit(args, prop, mod):
    out = {}
    if args.emit.startswith("file:"):
        with open(args.emit[5:]) as f:
            rp = json.load(f)
        res = runner.evaluate(rp["run_seed"], rp["ops"], pristine="none")
        out["file"] = [list(t) for t in res["seeded"]]
    else:
        for idx in [int(x) for x in args.emit.split(",") if x]:
            rs = mk_run_seed(args.seed, prop, idx)
            res = runner.evaluate(rs, None, pristine="none", extra_opts={"deep": args.tier == "thorough"})
            out[str(idx)] = {"fp": res["fp"], "seeded": [list(t) for t in res["seeded"]]}
    print("EMIT " + json.dumps(out))
    return 0


# ---------------------------------------------------------------------------

def run(args):
    t0 = time.time()
    prop = args.prop
    if not os.path.isdir(os.path.join(args.repo, "sempler")):
        raise HarnessError("no sempler package under %s" % args.repo)
    try:
        mod = runner.setup(prop, args.repo)
    except Exception as e:
        raise HarnessError("cannot import sempler from %s: %r" % (args.repo, e))
    if args.emit is not None:
        return do_emit(args, prop, mod)
    if args.replay is not None:
        return do_replay(args, prop, mod)

    tier = TIERS[prop]
    known = load_known()
    if args.tier == "quick":
        n_runs = args.runs or tier["quick_runs"]
        budget = args.budget
        pristine = "budget"
        xproc = tier["xproc_quick"]
    else:
        n_runs = args.runs
        budget = args.budget or (None if args.runs else tier["thorough_budget"])
        pristine = "all"
        xproc = tier["xproc_thorough"]
    print("semsim %s tier=%s VERIF_SEED=%d repo=%s workers=%d runs=%s budget=%s" % (
        prop, args.tier, args.seed, args.repo, args.workers, n_runs, budget))
    sys.stdout.flush()
    deep = args.tier == "thorough"
    tot = runner.run_batch(prop, args.seed, n_runs=n_runs, budget_s=budget, workers=args.workers,
                           pristine=pristine, xproc=xproc, start=args.start,
                           keep_fps=args.fingerprints is not None, deep=deep,
                           chunk=(20 if deep else 40))
    if args.fingerprints:
        with open(args.fingerprints, "w") as f:
            json.dump({str(k): v for k, v in sorted(tot["fps"].items())}, f)
    if tot["harness_errors"]:
        for idx, msg in tot["harness_errors"][:3]:
            print("harness error in run %d: %s" % (idx, msg))
        raise HarnessError("%d runs died outside the simulated system" % len(tot["harness_errors"]))

    # cross-process oracle
    xres = {"runs_compared": 0, "seeded_events_compared": 0, "fingerprints_equal": 0}
    violating = list(tot["violating"])
    if xproc and tot["seeded"]:
        idxs = sorted(tot["seeded"])
        other = runner.fresh_interpreter_digests(prop, args.repo, args.seed, idxs, deep=deep)
        for idx in idxs:
            mine = [list(t) for t in tot["seeded"][idx]]
            theirs = other[str(idx)]["seeded"]
            xres["runs_compared"] += 1
            xres["seeded_events_compared"] += len(mine)
            if other[str(idx)].get("fp") == tot["fps"].get(idx):
                xres["fingerprints_equal"] += 1      # informational: whole event log, unseeded events included
            if mine != theirs:
                site = "process"
                for a, b in zip(mine, theirs):
                    if a != b:
                        site = a[0]
                        break
                violating.append((idx, [{"cls": "cross_process_differs", "site": getattr(mod, "XSITE", "fresh interpreter"),
                                         "step": -1, "detail": {"this_process": mine[:4],
                                                                "fresh_interpreter": theirs[:4]}}]))

    # violations -> known findings / minimised replay files
    exit_code = 0
    reported = set()
    known_printed = set()
    n_viol = 0
    for idx, vs in violating:
        for v in vs:
            k = is_known(known, prop, v)
            if k is not None:
                if (v["cls"], v["site"]) not in known_printed:
                    known_printed.add((v["cls"], v["site"]))
                    print("KNOWN-FINDING: property=%s %s at %s: %s" % (prop, v["cls"], v["site"], k.get("what", "")))
                continue
            n_viol += 1
            if vkey(v) in reported or len(reported) >= 4:
                continue
            reported.add(vkey(v))
            rs = mk_run_seed(args.seed, prop, idx)
            res = runner.evaluate(rs, None, pristine="all", want_ops=True, extra_opts={"deep": deep})
            ops = res["ops"]
            if v["cls"] == "cross_process_differs":
                path = write_replay(args, prop, idx, rs, ops, v, False, len(ops), res["cfg"])
            else:
                small, ok, nt = minimise(prop, mod, rs, ops, vkey(v))
                res2 = runner.evaluate(rs, small, pristine="all")
                v2 = next((x for x in res2["violations"] if vkey(x) == vkey(v)), v)
                path = write_replay(args, prop, idx, rs, small, v2, ok and len(small) < len(ops), len(ops), res["cfg"])
                if not replay_in_fresh_process(args, prop, path):
                    path = write_replay(args, prop, idx, rs, ops, v, False, len(ops), res["cfg"])
                    print("note: minimised replay did not reproduce in a fresh process; unminimised history written")
            print("violation: %s at %s (run %d, step %s): %s" % (v["cls"], v["site"], idx, v["step"],
                                                                 json.dumps(v["detail"], default=str)[:500]))
            print("VIOLATION property=%s replay=%s" % (prop, path))
            exit_code = 1

    wall = time.time() - t0
    if not args.no_evidence:
        from .evidence import write_evidence
        write_evidence(args, prop, mod, tot, xres, n_viol, wall, sorted(known_printed))
    print("%s: %d runs, %d steps, %d pristine evaluations, %.0f runs/h, %d distinct histories, wall %.1fs, "
          "violations=%d" % (prop, tot["runs"], tot["steps"], tot["pristine_evals"],
                             tot["runs"] / max(tot["wall_s"], 1e-9) * 3600, len(tot["distinct"]), wall, n_viol))
    return exit_code
