"""Fixture generators shared by the worlds.  All choices come from a random.Random stream;
numpy's generators are never used for the simulator's own decisions."""
import numpy as np

from .canon import enc


def r2(g, lo, hi):
    return round(g.uniform(lo, hi), 2)


def signed_weight(g):
    w = r2(g, 0.5, 2.0)
    return -w if g.random() < 0.4 else w


def rand_dag(g, p, density=None, weighted=True, dtype=float):
    """Random DAG weight matrix (A[i,j] != 0 => i -> j) under a random node permutation."""
    if density is None:
        density = g.choice([0.0, 0.3, 0.5, 0.8, 1.0]) if g.random() < 0.3 else g.uniform(0.2, 0.8)
    perm = list(range(p))
    g.shuffle(perm)
    W = np.zeros((p, p), dtype=float)
    for a in range(p):
        for b in range(a + 1, p):
            if g.random() < density:
                W[perm[a], perm[b]] = signed_weight(g) if weighted else 1.0
    if weighted and p >= 2 and g.random() < 0.06:
        # a weight that is tiny but not zero (below the 1e-12 tolerance some helpers use)
        a, b = sorted(g.sample(range(p), 2))
        W[perm[a], perm[b]] = g.choice([1e-13, -1e-13, 5e-13])
    return W.astype(dtype)


def rand_cov(g, p, singular=False):
    k = max(1, p - 1) if singular and p > 1 else p
    B = np.array([[r2(g, -1.5, 1.5) for _ in range(k)] for _ in range(p)], dtype=float).reshape(p, k)
    C = B @ B.T
    if not singular:
        C = C + np.eye(p) * 0.25
    C = np.round(C, 4)
    if singular and p >= 2 and g.random() < 0.6:
        # EXACTLY singular (the rank-deficient product above is only numerically so): a variable that is an exact
        # copy of another, or a deterministic one; and, beside it, a third that is an almost exact copy (an
        # invertible but very ill-conditioned block, where two inversion routines agree to a few digits only)
        C = C + np.eye(p) * 0.25
        i, j = g.sample(range(p), 2)
        r = g.random()
        if r < 0.3:
            C[j, :] = 0.0
            C[:, j] = 0.0
        else:
            C[j, :] = C[i, :]
            C[:, j] = C[:, i]
            C[j, j] = C[i, i]
            if p >= 3 and r < 0.75:
                m = g.choice([x for x in range(p) if x not in (i, j)])
                C[m, :] = C[i, :]
                C[:, m] = C[:, i]
                C[m, j] = C[j, m] = C[i, i]
                C[m, m] = C[i, i] + g.choice([1e-13, 1e-12, 1e-11])
    return C


def rand_vec(g, p, lo, hi):
    return np.array([r2(g, lo, hi) for _ in range(p)], dtype=float)


NOISE_FACTORIES = ["noise.normal", "noise.uniform", "noise.laplace", "noise.zero"]


def rand_noise_spec(g, allow_zero=True):
    kind = g.choice(NOISE_FACTORIES if allow_zero else NOISE_FACTORIES[:3])
    if kind == "noise.normal":
        return [kind, r2(g, -1, 1), r2(g, 0.2, 2)]
    if kind == "noise.uniform":
        lo = r2(g, -2, 1)
        return [kind, lo, round(lo + r2(g, 0.3, 2), 2)]
    if kind == "noise.laplace":
        return [kind, r2(g, -1, 1), r2(g, 0.2, 1.5)]
    return [kind]


def rand_assign_spec(g, allow_param=False, allow_null=True):
    kinds = ["lin", "lin", "sin", "sumsq", "tanh"]
    if allow_null:
        kinds.append("null")
    if allow_param:
        kinds += ["param", "param", "bound", "partial"]
    k = g.choice(kinds)
    if k in ("lin", "param", "bound", "partial"):
        return [k, [r2(g, -1.5, 1.5) for _ in range(g.randint(1, 3))], r2(g, -1, 1)]
    return [k]


def vary_layout(g, A):
    """Other dtypes and memory layouts of the same matrix (part of the literal, hence of the signature)."""
    r = g.random()
    if r < 0.7:
        return A
    if r < 0.8:
        return np.asfortranarray(A)
    if r < 0.9:
        return A.astype(np.float32)
    if (A == np.round(A)).all():
        return A.astype(np.int64)
    return A


def lganm_spec(g, p, seeds, force_explicit=False, force_ranges=False, dtype="<f8"):
    W = rand_dag(g, p, density=(None if p <= 12 else 3.0 / p))
    spec = {"W": enc(vary_layout(g, W.astype(np.dtype(dtype))))}
    use_ranges = force_ranges or (not force_explicit and g.random() < 0.4)
    if use_ranges:
        lo = r2(g, -1, 1)
        spec["means"] = enc((lo, round(lo + r2(g, 0, 2), 2)))
        vlo = r2(g, 0.2, 1)
        spec["variances"] = enc((vlo, round(vlo + r2(g, 0, 2), 2)))
        r = g.random()               # one sampled and one explicit parameter, either way round
        if r < 0.2:
            spec["means"] = enc(rand_vec(g, p, -2, 2))
        elif r < 0.4:
            spec["variances"] = enc(rand_vec(g, p, 0.2, 2))
        spec["seed"] = g.choice(seeds)
    else:
        spec["means"] = enc(rand_vec(g, p, -2, 2))
        spec["variances"] = enc(rand_vec(g, p, 0.2, 2))
        if g.random() < 0.08:
            # integer-typed parameters, as in the class docstring
            spec["means"] = enc(np.array([g.randint(-2, 2) for _ in range(p)], dtype=np.int64))
            spec["variances"] = enc(np.array([g.randint(1, 3) for _ in range(p)], dtype=np.int64))
        spec["seed"] = None
    return spec


def nd_spec(g, p):
    cov = rand_cov(g, p, singular=g.random() < 0.2)
    if p >= 2 and g.random() < 0.06:
        cov = cov.copy()                      # symmetric but not positive semi-definite (numpy warns, and samples)
        cov[0, 1] = cov[1, 0] = 2.0 * max(cov[0, 0], cov[1, 1]) + 1.0
    return {"mean": enc(rand_vec(g, p, -2, 2)), "cov": enc(cov)}


def anm_spec(g, p, allow_param=False):
    W = rand_dag(g, p, weighted=False, density=(None if p <= 12 else 3.0 / p))
    noise = [rand_noise_spec(g) for _ in range(p)]
    if g.random() < 0.1:        # deterministic everywhere but at one node
        keep = g.randrange(p)
        noise = [rand_noise_spec(g, allow_zero=False) if i == keep else ["noise.zero"] for i in range(p)]
    return {"A": enc(vary_layout(g, W)), "assign": [rand_assign_spec(g, allow_param) for _ in range(p)], "noise": noise}


def lganm_ivs(g, p, how=None):
    """Intervention list for LGANM: 'omit' | None | [] | [[t, [m, v]] | [t, scalar], ...]"""
    how = how or g.choice(["omit", "omit", "given", "given", "given", "empty", "none"])
    if how == "omit":
        return "omit"
    if how == "none":
        return None
    if how == "empty":
        return []
    k = g.randint(1, min(p, 3)) if g.random() < 0.88 else p      # sometimes every variable
    ts = g.sample(range(p), k)
    out = []
    for t in ts:
        r = g.random()
        if r < 0.03:
            out.append([t, [g.choice([1e17, -1e17, 1e-17, 3e8]), g.choice([0, 1e-14, 1e-300, 1e12])]])     # extreme magnitudes
        elif r < 0.2:
            out.append([t, g.choice([r2(g, -3, 3), g.randint(-3, 3)])])
        elif r < 0.35:
            out.append([t, [r2(g, -3, 3), 0]])
        else:
            out.append([t, [r2(g, -3, 3), r2(g, 0.1, 3)]])
    return out


def anm_ivs(g, p, how=None):
    how = how or g.choice(["omit", "omit", "given", "given", "given", "empty"])
    if how == "omit":
        return "omit"
    if how == "empty":
        return []
    k = g.randint(1, min(p, 3)) if g.random() < 0.88 else p
    ts = g.sample(range(p), k)
    out = [[t, rand_noise_spec(g)] for t in ts]
    for item in out:
        if g.random() < 0.3:
            # a distribution object the caller re-uses; the name carries a hash of the spec, so that one name can
            # never stand for two different distributions within a run
            from .canon import jkey
            item[1] = ["held", "h%s_%d" % (jkey(item[1])[:10], g.getrandbits(20)), item[1]]
    return out


def seed_value(s):
    """Integer value of a seed literal (python int, {'__np__': [dtype, value]} or {'__ss__': [entropy, name]})."""
    if isinstance(s, dict):
        if "__gen__" in s:
            return s["__gen__"][1]
        return s["__np__"][1] if "__np__" in s else s["__ss__"][0] if "__ss__" in s else s["__arrseed__"][0][0]
    if isinstance(s, list):
        return s[0]
    if s == "default":
        return 42
    return s


def seed_is_numpy(s):
    return isinstance(s, dict) and "__np__" in s


def seed_is_object(s):
    return isinstance(s, dict) and ("__ss__" in s or "__arrseed__" in s)


def seed_object(world, s):
    """Python value of a seed literal.  A SeedSequence literal names ONE object that the simulated caller
    keeps and passes again (numpy's default_rng accepts it and does not change it)."""
    from .canon import dec
    if s is not None and not isinstance(s, (int, dict, list, str)):
        return s          # already a python object
    if isinstance(s, dict) and "__arrseed__" in s:
        # an integer ARRAY used as seed (numpy accepts it): one object the caller keeps and passes again
        objs = world.__dict__.setdefault("seed_objects", {})
        vals, name = s["__arrseed__"]
        if name not in objs:
            objs[name] = np.array(vals, dtype=np.int64)
        return objs[name]
    if isinstance(s, dict) and "__gen__" in s:
        # a numpy Generator / BitGenerator in a given state, made afresh for every call: "the same seed" for every API
        # that hands its random_state to numpy.random.default_rng
        kind, v = s["__gen__"]
        world.probes["seed.given_as_" + kind] += 1
        bg = np.random.PCG64(int(v))
        return np.random.Generator(bg) if kind == "Generator" else bg
    if isinstance(s, dict) and "__ss__" in s:
        objs = world.__dict__.setdefault("seed_objects", {})
        ent, name = s["__ss__"]
        if name not in objs:
            objs[name] = np.random.SeedSequence(ent)
        return objs[name]
    return dec(s)


def np_seed(g, value):
    """The same seed as a numpy integer scalar literal: a form the library has always accepted."""
    dt = g.choice(["<i8", "<i8", "<u4", "<i4"]) if value < 2 ** 31 else g.choice(["<i8", "<u4"])
    return {"__np__": [dt, value]}


def seed_alphabet(g):
    """Always 0; small, 2**32-1 and random 32-bit values; some of them as numpy integer scalars."""
    base = [0, g.choice([1, 42, 7]), g.choice([2 ** 32 - 1, g.getrandbits(32)]), g.getrandbits(32)]
    out = list(base)
    if g.random() < 0.5:
        out.append(np_seed(g, g.choice(base)))
    if g.random() < 0.3:
        out.append(np_seed(g, 0))
    if g.random() < 0.2:
        out.append({"__ss__": [g.getrandbits(32), "ss%d" % g.getrandbits(16)]})
    if g.random() < 0.12:
        out.append([g.getrandbits(16), g.getrandbits(16), g.randint(0, 5)])      # a sequence of ints is a valid seed
    if g.random() < 0.12:
        vals = [g.getrandbits(16), g.getrandbits(16)]
        out.append({"__arrseed__": [vals, "as%d_%d" % (vals[0], vals[1])]})       # ... and so is an integer array
    if g.random() < 0.15:
        # beyond what np.random.seed accepts (it raises, consistently) but fine for default_rng
        out.append(g.choice([2 ** 32, 2 ** 32 + g.getrandbits(20), 2 ** 63 + g.getrandbits(30)]))
    return out


def seed_class(s):
    v = seed_value(s)
    if v is None:
        return "none"
    c = "0" if v == 0 else "small" if v < 1000 else "32bit" if v < 2 ** 32 else "big"
    return c + ("/gen" if isinstance(s, dict) and "__gen__" in s else "/np" if seed_is_numpy(s) else "/ss" if seed_is_object(s) else "/list" if isinstance(s, list) else "")


def bitgen_variation(f, ops):
    """Some global reseeds of a generated history become `numpy.random.set_bit_generator(MT19937(seed))` (decided by a
    stream of its own, after generation)."""
    rate = f.choice([0, 0.15, 0.4])
    for rec in ops:
        r = f.random()
        if rec.get("op") == "np.perturb" and rec.get("kind") == "reseed" and r < rate:
            rec["kind"] = "bitgen"


def generator_seed_variation(f, ops, is_target):
    """Some integer seeds of a generated history are handed over as a numpy Generator / BitGenerator in the state that
    integer defines (the same form at every call with that seed; decided by a stream of its own, after generation)."""
    rate = f.choice([0, 0, 0.2, 0.5])
    chosen = {}
    for rec in ops:
        s = rec.get("seed")
        if isinstance(s, int) and not isinstance(s, bool) and is_target(rec):
            if s not in chosen:
                r, kind = f.random(), f.choice(["Generator", "Generator", "BitGenerator"])
                chosen[s] = kind if r < rate else None
            if chosen[s]:
                rec["seed"] = {"__gen__": [chosen[s], s]}


PRINTOPTIONS = [{"threshold": 3, "edgeitems": 1}, {"precision": 0}, {"precision": 1, "threshold": 5, "edgeitems": 1},
                {"threshold": 3, "edgeitems": 1, "precision": 2}, None]


def printoptions_variation(f, ops, at_start_only, rate=0.08):
    """In some runs the application sets numpy's print options (few digits, everything summarised): once at the start
    of the session, or a few times during it.  Decided by a stream of its own, after generation."""
    r, k = f.random(), f.randint(1, 3)
    plan = [(f.random(), f.choice(PRINTOPTIONS)) for _ in range(3)]
    if r >= rate:
        return
    if at_start_only:
        i = 1 if ops and ops[0].get("op") in ("np.seterr", "peer.config") else 0
        ops.insert(i, {"c": 0, "op": "np.printoptions", "state": plan[0][1] or PRINTOPTIONS[0]})
        return
    for pos, state in plan[:k]:
        ops.insert(int(pos * (len(ops) + 1)), {"c": 0, "op": "np.printoptions", "state": state})
