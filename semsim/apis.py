"""Invocation of sempler's APIs from literal (JSON) argument records."""
import numpy as np

from .canon import dec
from .gen_common import seed_object
from .world import Skip

OMIT = "omit"


def build_model(world, mtype, spec):
    S = world.sempler
    if mtype == "lganm":
        W = dec(spec["W"])
        means = dec(spec["means"])
        variances = dec(spec["variances"])
        return S.LGANM(W, means, variances, random_state=seed_object(world, spec.get("seed")))
    if mtype == "nd":
        return S.NormalDistribution(dec(spec["mean"]), dec(spec["cov"]))
    if mtype == "anm":
        A = dec(spec["A"])
        assign = [world.fn(s) for s in spec["assign"]]
        noise = [world.fn(s) for s in spec["noise"]]
        return S.ANM(A, assign, noise)
    raise ValueError(mtype)


def clone(model, via):
    """An equal model object: a deep copy, or a pickle round trip where the model can be pickled."""
    import copy
    import pickle
    if via == "pickle":
        try:
            return pickle.loads(pickle.dumps(model))
        except Exception:
            return copy.deepcopy(model)
    return copy.deepcopy(model)


def get_model(world, m):
    mid = m.get("id")
    if mid is not None and mid in world.objs:
        model, old = world.objs[mid], True
    else:
        model, old = build_model(world, m["type"], m["spec"]), False
        if m.get("born"):
            model = clone(model, m["born"])
            world.probes["model.lives_as_a_" + m["born"]] += 1
        if mid is not None:
            world.objs[mid] = model
    if m.get("via"):
        world.probes["model.used_through_a_" + m["via"]] += 1
        return clone(model, m["via"]), old
    return model, old


def lganm_interventions(lst):
    """[[target, [mean, var]] | [target, scalar], ...] -> dict; None -> None."""
    if lst is None:
        return None
    d = {}
    for t, v in lst:
        d[t] = tuple(v) if isinstance(v, list) else v
    return d


def anm_interventions(world, lst):
    if lst is None:
        return None
    return dict((t, world.fn(spec)) for t, spec in lst)


def _ikw(args, conv):
    kw = {}
    for short, name in (("do", "do_interventions"), ("shift", "shift_interventions"),
                        ("noise", "noise_interventions")):
        v = args.get(short, OMIT)
        if v == OMIT:
            continue
        kw[name] = conv(v)
    return kw


def invoke(world, rec):
    """Returns a zero-argument callable performing the library call described by rec
    (so that model construction errors are also inside world.call)."""
    S = world.sempler
    api = rec["api"]
    a = rec.get("args", {})
    if rec.get("npints"):
        # the same integers as numpy integer scalars (what indexing / arithmetic on arrays hands to the caller)
        a = {k: (np.int64(v) if isinstance(v, int) and not isinstance(v, bool) and k in ("p", "K", "n", "k", "size")
                 else v) for k, v in a.items()}
        world.probes["call.integers_as_numpy_scalars"] += 1
    seed = seed_object(world, rec.get("seed"))

    if api == "lganm.new":
        def f():
            m = build_model(world, "lganm", dict(rec["m"]["spec"], seed=seed))
            if rec.get("attr_order") == "vm":
                # the caller looks at the parameters in another order (what a model is does not depend on it)
                world.probes["model.parameters_read_in_another_order"] += 1
                v = m.variances
                mu = m.means
                return (m.W, mu, v)
            return (m.W, m.means, m.variances)
        return f
    if api == "lganm.sample":
        def f():
            m, _ = get_model(world, rec["m"])
            kw = _ikw(a, lganm_interventions)
            if a.get("population"):
                kw["population"] = True
            if "n" not in a:
                return m.sample(random_state=seed, **kw)        # the default sample size
            return m.sample(a["n"], random_state=seed, **kw)
        return f
    pos = bool(rec.get("posseed"))       # the seed handed over positionally, as the signatures allow
    if api == "nd.sample":
        def f():
            m, _ = get_model(world, rec["m"])
            if pos:
                return m.sample(a["n"], seed)
            return m.sample(a["n"], random_state=seed)
        return f
    if api == "anm.sample":
        def f():
            m, _ = get_model(world, rec["m"])
            kw = _ikw(a, lambda v: anm_interventions(world, v))
            return m.sample(a["n"], random_state=seed, **kw)
        return f
    if api == "gen.dag_avg_deg":
        def f():
            return S.generators.dag_avg_deg(a["p"], a["k"], a["w_min"], a["w_max"],
                                            return_ordering=a.get("return_ordering", False),
                                            random_state=seed, debug=a.get("debug", False))
        return f
    if api == "gen.dag_full":
        def f():
            return S.generators.dag_full(a["p"], a["w_min"], a["w_max"],
                                         return_ordering=a.get("return_ordering", False),
                                         random_state=seed)
        return f
    if api == "gen.intervention_targets":
        def f():
            size = a["size"]
            size = tuple(size) if isinstance(size, list) else size
            if pos:
                return S.generators.intervention_targets(a["p"], a["K"], size, a.get("replace", True), seed)
            return S.generators.intervention_targets(a["p"], a["K"], size, replace=a.get("replace", True),
                                                     random_state=seed)
        return f
    skw = {} if rec.get("seed") == "default" else {"random_state": seed}
    sargs = ()
    if pos and skw:
        skw, sargs = {}, (seed,)
    if api == "utils.split_data":
        def f():
            return S.utils.split_data(dec(a["data"]), list(a["ratios"]), *sargs, **skw)
        return f
    if api == "utils.add_edges":
        def f():
            return S.utils.add_edges(dec(a["A"]), a["k"], *sargs, **skw)
        return f
    if api == "utils.remove_edges":
        def f():
            return S.utils.remove_edges(dec(a["A"]), a["k"], *sargs, **skw)
        return f
    raise ValueError("unknown api %r" % api)
