"""Evidence files: what this run actually covered (EVIDENCE.schema.json, level exploration)."""
import json
import os

COMPONENTS = {
    "C13": {"real": ["sempler.lganm", "sempler.anm", "sempler.normal_distribution", "sempler.generators",
                     "sempler.utils", "sempler.noise", "numpy global RandomState", "numpy Generator (PCG64)"],
            "simulated": ["the name np inside the library's modules (pass-through proxy: every numpy function call is a fault point, seam np.*)", "application threads that make the calls (one call at a time)", "every clock of the standard library (counter)", "OS entropy behind numpy.random.default_rng(None)", "caller processes (clients)",
                          "np.random.multivariate_normal failure seam", "user callables that fail"],
            "stub": []},
    "C14": {"real": ["sempler.lganm", "sempler.anm", "sempler.normal_distribution", "sempler.utils",
                     "sempler.generators", "numpy"],
            "simulated": ["the name np inside the library's modules (pass-through proxy: every numpy function call is a fault point, seam np.*)", "application threads that make the calls (one call at a time)", "every clock of the standard library (counter)", "OS entropy behind numpy.random.default_rng(None)", "caller-owned buffers and their mutation",
                          "np.linalg.* / np.random.multivariate_normal failure seams", "user callables that fail"],
            "stub": ["matplotlib and networkx.draw / draw_networkx_edge_labels (simulated display that records requests and can fail; sempler/plot.py itself, networkx graph construction and layout are real)"]},
    "C19": {"real": ["sempler.semi (DRFNet, BayesianNetwork, _bootstrap)", "drf.code (bundled wrapper)",
                     "sempler.utils", "pandas", "numpy"],
            "simulated": ["the name np inside the library's modules (pass-through proxy: every numpy function call is a fault point, seam np.*)", "application threads that make the calls (one call at a time)", "every clock of the standard library (counter)", "OS entropy behind numpy.random.default_rng(None)", "time.time on verbose paths"],
            "stub": ["rpy2 (fake package on sys.path)", "R process", "R package drf (deterministic k-nearest-row forest)"]},
}


def write_evidence(args, prop, mod, tot, xres, n_viol, wall, known_printed):
    required = list(getattr(mod, "REQUIRED_PROBES", []))
    probes = dict(sorted(tot["probes"].items()))
    missing = [p for p in required if not probes.get(p)]
    distinct = tot["distinct"]
    nontriv = sum(1 for d in distinct if d[-1] is True)
    runs = tot["runs"]
    rate = runs / max(tot["wall_s"], 1e-9) * 3600
    expl = ("%d simulated runs (one forked world each) from VERIF_SEED=%d, run indices %d..%d; %d steps of simulated "
            "time (one tick per operation); %d pristine (history-free, fresh fork) reference evaluations; "
            "%.0f runs/hour on %d workers." % (runs, args.seed, args.start, tot["next_index"] - 1, tot["steps"],
                                               tot["pristine_evals"], rate, args.workers))
    if missing:
        expl += " THIN COVERAGE: probes never hit in this run: %s." % ", ".join(missing)
    else:
        expl += " Every required probe fired."
    samples = []
    for s in tot["samples"][:2]:
        ops = s.get("ops") or []
        samples.append({"run_index": s["run_index"], "config": s.get("config"),
                        "ops": [_short(o) for o in ops[:25]], "ops_total": len(ops)})
    ev = {
        "property_id": prop, "tier": args.tier, "seed": args.seed, "level": "exploration",
        "coverage": {
            "evaluations": runs,
            "distinct_nontrivial": nontriv,
            "rule": getattr(mod, "RULE", ""),
            "samples": samples or [{"note": "no sample recorded"}],
            "explanation": expl,
            "distinct_histories_total": len(distinct),
            "simulated_time_steps": tot["steps"],
            "operations_generated": tot["nops"],
            "runs_per_hour": round(rate),
            "pristine_reference_evaluations": tot["pristine_evals"],
            "faults_fired": dict(sorted(tot["faults"].items())),
            "probes": probes,
            "required_probes_missing": missing,
            "api_calls": dict(sorted(tot["apis"].items())),
            "cross_process": xres,
            "components": COMPONENTS[prop],
            "known_findings_seen": ["%s@%s" % k for k in known_printed],
            "repo": os.path.realpath(args.repo),
        },
        "assumptions": list(getattr(mod, "ASSUMPTIONS", [])),
        "wall_s": round(wall, 2),
        "violations": n_viol,
    }
    if hasattr(mod, "discover"):
        try:
            from . import runner
            ev["coverage"]["seeded_api_discovery"] = mod.discover(runner._ctx["S"])
        except Exception as e:      # informational only
            ev["coverage"]["seeded_api_discovery"] = {"error": repr(e)}
    for name in ("selftest_determinism", "selftest_sensitivity"):
        f = os.path.join(os.path.dirname(os.path.dirname(os.path.abspath(__file__))), "evidence", name + ".json")
        if os.path.exists(f):
            try:
                st = json.load(open(f))
                ev["coverage"][name + "_last_recorded"] = (
                    {"ok": st.get("ok"), "results": st.get("results")} if name.endswith("determinism") else
                    {"detected": st.get("detected"), "total": st.get("total"),
                     "for_this_property": sorted(m["name"] for m in st.get("mutants", [])
                                                 if m.get("property") == prop and m.get("detected"))})
            except Exception:
                pass
    os.makedirs(args.evidence_dir, exist_ok=True)
    path = os.path.join(args.evidence_dir, "%s.json" % prop)
    tmp = path + ".tmp"
    with open(tmp, "w") as f:
        json.dump(ev, f, indent=1, default=str)
    os.replace(tmp, path)
    if args.tier == "thorough":
        # the registered evidence file is rewritten by every run; keep the last thorough one beside it
        os.makedirs(os.path.join(args.evidence_dir, "thorough"), exist_ok=True)
        with open(os.path.join(args.evidence_dir, "thorough", "%s.json" % prop), "w") as f:
            json.dump(ev, f, indent=1, default=str)
    return path


def _short(o, limit=400):
    s = json.dumps(o, default=str)
    if len(s) <= limit:
        return o
    return {"op": o.get("op"), "api": o.get("api"), "c": o.get("c"), "abridged": s[:limit] + "..."}
