"""C13 — seeded calls are reproducible regardless of history (DESIGN section 3)."""
import copy

import numpy as np

from . import gen_common as G
from .apis import invoke
from .canon import enc, jkey, outcome_digest
from .catalogue import is_random_noise
from .seeds import Streams
from .world import World, SHARED_OPS, Skip

PROP = "C13"

APIS = ["lganm.new", "lganm.sample", "nd.sample", "anm.sample", "gen.dag_avg_deg", "gen.dag_full",
        "gen.intervention_targets", "utils.split_data", "utils.add_edges", "utils.remove_edges"]
SAMPLERS = ("lganm.sample", "nd.sample", "anm.sample")

SITE = {"lganm.new": "LGANM.__init__", "lganm.sample": "LGANM.sample", "nd.sample": "NormalDistribution.sample",
        "anm.sample": "ANM.sample", "gen.dag_avg_deg": "generators.dag_avg_deg",
        "gen.dag_full": "generators.dag_full", "gen.intervention_targets": "generators.intervention_targets",
        "utils.split_data": "utils.split_data", "utils.add_edges": "utils.add_edges",
        "utils.remove_edges": "utils.remove_edges"}

RATIOS = [[1.0], [0.5, 0.5], [0.25, 0.75], [0.5, 0.25, 0.25], [0.75, 0.25], [0.125, 0.875]]


# ---------------------------------------------------------------------------
# generation

def gen_config(g):
    seeds = G.seed_alphabet(g)
    k = g.randint(2, len(APIS))
    apis = g.sample(APIS, k) if g.random() < 0.6 else list(APIS)
    all_faults = ["rng.draw", "rng.reseed", "rng.setstate", "rng.stdlib", "entropy", "call.fail", "gc", "lib.call",
                  "caller.scribble_output"]
    if g.random() < 0.25:
        faults = ["lib.call"]
    else:
        faults = [f for f in all_faults if g.random() < 0.7] or ["rng.draw"]
    return {"clients": g.randint(1, 4), "length": g.randint(8, 60), "pmax": g.randint(1, 7),
            "huge": g.random() < 0.04,     # sizes beyond any small-case threshold (32, 50, 64, 100, 128)
            "bursts": g.random() < 0.06,   # long sessions: one call repeated hundreds of times in a row
            "seeds": seeds, "apis": apis, "faults": faults, "nsig": g.randint(3, 8),
            "late_bias": g.choice([0.5, 0.85, 1.0])}


def rand_n(g):
    r = g.random()
    if r < 0.1:
        return 1
    if r < 0.115:
        return 0              # an empty sample is a valid request
    return g.randint(1, 40) if r < 0.94 else g.choice([100, 256, 257, 512, 1000, 1024, 2048, 2500])


def gen_call(g, cfg, api, seed, mid=None):
    """One call record (without client) for `api` with random arguments."""
    pmax = cfg["pmax"]
    p = g.randint(1, pmax)
    huge = cfg.get("huge") and g.random() < 0.5
    if huge:
        p = g.choice([33, 51, 64, 65, 100, 129])
    rec = {"op": "call", "api": api, "seed": seed}
    if api == "lganm.new":
        spec = G.lganm_spec(g, p, cfg["seeds"], force_ranges=True)
        spec.pop("seed")
        rec["m"] = {"id": None, "type": "lganm", "spec": spec}
    elif api == "lganm.sample":
        spec = G.lganm_spec(g, p, cfg["seeds"])
        if seed is None and g.random() < 0.3 and isinstance(spec["means"], dict) and "__tuple__" in spec["means"]:
            spec["seed"] = None
        rec["m"] = {"id": mid, "type": "lganm", "spec": spec}
        rec["args"] = {"n": rand_n(g), "do": G.lganm_ivs(g, p), "shift": G.lganm_ivs(g, p),
                       "noise": G.lganm_ivs(g, p)}
        if g.random() < 0.05:
            del rec["args"]["n"]         # LGANM.sample's default n (100)
    elif api == "nd.sample":
        rec["m"] = {"id": mid, "type": "nd", "spec": G.nd_spec(g, p)}
        rec["args"] = {"n": rand_n(g)}
    elif api == "anm.sample":
        rec["m"] = {"id": mid, "type": "anm", "spec": G.anm_spec(g, p)}
        rec["args"] = {"n": rand_n(g), "do": G.anm_ivs(g, p), "shift": G.anm_ivs(g, p),
                       "noise": G.anm_ivs(g, p)}
    elif api == "gen.dag_avg_deg":
        p = g.randint(2, max(2, pmax + 3)) if not huge else p
        lo = G.r2(g, 0.1, 2)
        rec["args"] = {"p": p, "k": g.choice([0, G.r2(g, 0.5, min(3.0, p - 1)), G.r2(g, 0.5, min(3.0, p - 1)), p - 1]),
                       "w_min": lo, "w_max": lo if g.random() < 0.15 else round(lo + G.r2(g, 0, 2), 2),
                       "return_ordering": g.random() < 0.5, "debug": g.random() < 0.1}
    elif api == "gen.dag_full":
        p = g.randint(1, pmax + 3) if not huge else p
        lo = G.r2(g, 0.1, 2)
        rec["args"] = {"p": p, "w_min": lo, "w_max": round(lo + G.r2(g, 0, 2), 2),
                       "return_ordering": g.random() < 0.5}
    elif api == "gen.intervention_targets":
        p = g.randint(2, 12) if not huge else p
        replace = g.random() < 0.5
        if g.random() < 0.5:
            size = g.randint(1, 3)
        else:
            lo = g.randint(0, 2)
            size = [lo, lo + g.randint(0, 2)]
        K = g.randint(1, 6)
        if not replace and g.random() < 0.3:      # exactly at the feasibility limit
            size = g.randint(1, 3)
            K = max(1, min(6, p // size))
            p = size * K if g.random() < 0.7 else p
        rec["args"] = {"p": p, "K": K, "size": size, "replace": replace}
    elif api == "utils.split_data":
        e = g.randint(1, 3) if not huge else g.choice([1, 9, 17])
        p = min(p, 4)
        data = []
        for _ in range(e):
            n = g.randint(2, 24)
            data.append(np.array([[G.r2(g, -5, 5) for _ in range(p)] for _ in range(n)], dtype=float).reshape(n, p))
        rec["args"] = {"data": enc([G.vary_layout(g, d) for d in data]), "ratios": g.choice(RATIOS)}
    elif api in ("utils.add_edges", "utils.remove_edges"):
        p = g.randint(2, max(2, pmax)) if not huge else min(p, 33)
        A = G.rand_dag(g, p, weighted=g.random() < 0.5, density=(0.1 if huge else None))
        A = G.vary_layout(g, A) if g.random() < 0.8 else (A != 0)
        rec["args"] = {"A": enc(A), "k": g.randint(0, 4)}
    else:
        raise ValueError(api)
    if seed is None and api in SAMPLERS:
        rec["nd"] = nd_eligible(rec)
    if seed is None and api in ("gen.dag_full", "gen.dag_avg_deg"):
        rec["nd"] = nd_eligible(rec)
    return rec


def nd_eligible(rec):
    """At least one coordinate has positive variance under any correct implementation."""
    from .canon import dec
    api, a = rec["api"], rec.get("args", {})
    if api == "gen.dag_full":
        # p(p-1)/2 continuous weights: two independent draws coincide with probability 0
        return a["p"] >= 3 and a["w_max"] > a["w_min"]
    if api == "lganm.sample" and "n" not in a:
        a = dict(a, n=100)
    if api == "gen.dag_avg_deg":
        # the orderings alone coincide with probability 1/p! < 2**-64 for p >= 21
        return a["p"] >= 21 and bool(a.get("return_ordering"))
    if a.get("n", 0) < 1:
        return False
    spec = rec["m"]["spec"]
    touched = set()
    for kind in ("do", "shift", "noise"):
        v = a.get(kind)
        if isinstance(v, list):
            touched |= {t for t, _ in v}
            for _, val in v:
                nums = val if isinstance(val, list) else [val]
                if any(isinstance(x, (int, float)) and abs(x) > 1e6 for x in nums):
                    return False       # magnitudes that absorb O(1) noise in floating point: equality is legitimate
    if api == "lganm.sample":
        var = dec(spec["variances"])
        p = len(dec(spec["W"]))
        if isinstance(var, tuple):
            return var[0] >= 0.1 and len(touched) < p
        return any(var[j] >= 0.1 for j in range(p) if j not in touched)
    if api == "nd.sample":
        return bool((np.diag(dec(spec["cov"])) >= 0.1).any())
    if api == "anm.sample":
        return any(is_random_noise(s) for j, s in enumerate(spec["noise"]) if j not in touched)
    return False


def spec_p(m):
    sp = m["spec"]
    if m["type"] == "lganm":
        return sp["W"]["__nd__"]["shape"][0]
    if m["type"] == "nd":
        return sp["mean"]["__nd__"]["shape"][0]
    return len(sp["noise"])


def gen_filler(g, cfg, sigs, state):
    kinds = cfg["faults"]
    kind = g.choice(kinds)
    if kind == "rng.draw":
        return {"op": "np.perturb", "kind": "draw",
                "dist": g.choice(["normal", "uniform", "laplace", "random", "randint", "choice",
                                  "permutation", "shuffle", "mvn"]), "n": g.randint(1, 20)}
    if kind == "rng.reseed":
        return {"op": "np.perturb", "kind": "reseed", "seed": G.seed_value(g.choice(cfg["seeds"] + [g.getrandbits(32)]))}
    if kind == "rng.setstate":
        if state["slots"] and g.random() < 0.6:
            return {"op": "np.perturb", "kind": "setstate", "slot": g.choice(state["slots"])}
        slot = "s%d" % len(state["slots"])
        state["slots"].append(slot)
        return {"op": "np.perturb", "kind": "getstate", "slot": slot}
    if kind == "rng.stdlib":
        if g.random() < 0.5:
            return {"op": "py.random", "kind": "seed", "seed": g.getrandbits(16)}
        return {"op": "py.random", "kind": "draw", "n": g.randint(1, 5)}
    if kind == "entropy":
        return {"op": "entropy.draw", "n": g.randint(1, 4)}
    if kind == "gc":
        if g.random() < 0.3:
            from .world import IMPORTABLE
            return {"op": "py.import", "module": g.choice(IMPORTABLE)}
        return {"op": "gc"}
    if kind == "caller.scribble_output":
        # the caller works in place on something a seeded call handed out earlier
        return {"op": "out.scribble", "which": g.randrange(64), "how": g.choice(["shuffle", "add", "zero"])}
    if kind == "call.fail":
        # a seeded call that fails midway, after the global generator was reseeded
        r = g.random()
        seed = g.choice(cfg["seeds"])
        shared = [s for s in sigs if s.get("m", {}).get("id") and s["api"] in SAMPLERS]
        if shared and g.random() < 0.5:
            # the failing call is made on a long-lived model that also serves a signature
            s = g.choice(shared)
            rec = {"op": "call", "api": s["api"], "seed": g.choice([seed, s["seed"], None]), "m": copy.deepcopy(s["m"]),
                   "args": copy.deepcopy(s["args"]), "on_shared": True}
            if s["api"] == "anm.sample":
                p = len(rec["m"]["spec"]["noise"])
                kind = g.choice(["do", "shift", "noise"])
                rec["args"][kind] = [[g.randrange(p), ["failing", 1, ["noise.normal", 0, 1], "RuntimeError"]]]
                rec["fail"] = "callable.raise"
            else:
                rec["arm"] = ["np.random.multivariate_normal", 1, g.choice(["MemoryError", "LinAlgError"])]
                rec["fail"] = "seam.raise"
            return rec
        if r < 0.5:
            rec = gen_call(g, cfg, "anm.sample", seed)
            p = len(rec["m"]["spec"]["noise"])
            t = g.randrange(p)
            rec["args"]["do"] = [[t, ["failing", 1, ["noise.normal", 0, 1], "RuntimeError"]]]
            rec["fail"] = "callable.raise"
        else:
            rec = gen_call(g, cfg, g.choice(["nd.sample", "lganm.sample"]), seed)
            rec["arm"] = ["np.random.multivariate_normal", 1, g.choice(["MemoryError", "LinAlgError"])]
            rec["fail"] = "seam.raise"
        return rec
    # lib.call: any API, other seed or unseeded; sometimes on a signature's shared model
    api = g.choice(APIS)
    seed = g.choice(cfg["seeds"] + [None, None, None])
    shared = [s for s in sigs if s["api"] == api and s.get("m", {}).get("id")]
    rec = gen_call(g, cfg, api, seed)
    if shared and api in SAMPLERS and g.random() < 0.6:
        s = g.choice(shared)
        rec["m"] = copy.deepcopy(s["m"])
        p = spec_p(s["m"])
        if api in ("lganm.sample", "anm.sample") and g.random() < 0.4:
            # the signature's own interventions, moved to other kinds (same targets, same parameters)
            a0 = copy.deepcopy(s["args"])
            kinds = ["do", "shift", "noise"]
            perm = kinds[:]
            while perm == kinds:
                g.shuffle(perm)
            rec["args"] = dict(a0, **{k2: a0.get(k1, "omit") for k1, k2 in zip(kinds, perm)})
            rec["seed"] = g.choice([s["seed"], seed])
        elif api == "lganm.sample":
            rec["args"] = {"n": g.randint(1, 20), "do": G.lganm_ivs(g, p, "given"),
                           "shift": G.lganm_ivs(g, p), "noise": G.lganm_ivs(g, p)}
        elif api == "anm.sample":
            rec["args"] = {"n": g.randint(1, 20), "do": G.anm_ivs(g, p, "given"), "shift": G.anm_ivs(g, p),
                           "noise": G.anm_ivs(g, p)}
        rec["on_shared"] = True
        if seed is None:
            rec["nd"] = nd_eligible(rec)
    return rec


def generate(run_seed, deep=False):
    st = Streams(run_seed)
    g, sc = st["gen"], st["sched"]
    cfg = gen_config(g)
    cfg["deep"] = bool(deep) and st["deep"].random() < 0.5
    if cfg["deep"]:      # thorough tier: long histories, more signatures, more repetitions
        cfg["length"] = st["deep"].randint(60, 160)
        cfg["nsig"] = st["deep"].randint(6, 14)
    sigs = []
    for k in range(cfg["nsig"]):
        api = g.choice(cfg["apis"])
        seed = g.choice(cfg["seeds"])
        if api in LAYOUT_FREE and g.random() < 0.2:
            seed = "default"         # random_state omitted: the documented default (42) is a seed like any other
        mid = ("m%d" % k) if (api in SAMPLERS and g.random() < 0.6) else None
        rec = gen_call(g, cfg, api, seed, mid)
        if mid and g.random() < 0.1:
            rec["m"]["born"] = g.choice(["deepcopy", "pickle"])     # the long-lived model is a copy of the constructed one
        rec["sig"] = k
        sigs.append(rec)
    remaining = {k: sc.randint(2, 6) if not cfg["deep"] else sc.randint(3, 9) for k in range(len(sigs))}
    evaluated = {}      # sig -> perturbed since last evaluation?
    ops = []
    state = {"slots": []}
    guard = 0
    while len(ops) < cfg["length"] and guard < 500:
        guard += 1
        r = sc.random()
        c = sc.randrange(cfg["clients"])
        live = [k for k, n in remaining.items() if n > 0]
        if live and r < 0.4:
            k = sc.choice(live)
            if k in evaluated and not evaluated[k] and sc.random() < cfg["late_bias"]:
                f = gen_filler(g, cfg, sigs, state)
                f["c"] = c
                ops.append(f)
                for j in evaluated:
                    evaluated[j] = True
                continue
            rec = copy.deepcopy(sigs[k])
            rec["c"] = c
            if k in evaluated and rec["api"] in LAYOUT_FREE and sc.random() < 0.3:
                rec["args"] = relayout(rec["args"])          # the same matrix in the other memory layout
                rec["relayout"] = True
            if k in evaluated and rec["seed"] is not None and rec["seed"] != "default" and sc.random() < 0.2 and \
                    rec["api"] in ("nd.sample", "gen.intervention_targets") + LAYOUT_FREE:
                rec["posseed"] = True                          # the same call with the seed passed positionally
            if k in evaluated and rec.get("m") and rec["api"] != "lganm.new" and sc.random() < 0.12:
                rec["m"]["via"] = sc.choice(["deepcopy", "pickle"])      # the same call on an equal copy of the model
            if cfg.get("bursts") and sc.random() < 0.15 and rec.get("args", {}).get("n", 1) <= 40 and \
                    rec.get("args", {}).get("p", 1) <= 20 and not cfg.get("huge"):
                rec["burst"] = sc.choice([12, 130, 260, 1030])
            if k in evaluated and rec["api"] in ("lganm.sample", "anm.sample") and sc.random() < 0.25:
                for kind in ("do", "shift", "noise"):          # equal dicts, filled in another order
                    v = rec["args"].get(kind)
                    if isinstance(v, list) and len(v) >= 2:
                        v.reverse()
                        rec["reordered"] = True
            ops.append(rec)
            remaining[k] -= 1
            evaluated[k] = False
        elif r < 0.47:
            # two immediately consecutive, identical unseeded sampling calls (non-degeneracy)
            api = sc.choice(SAMPLERS + ("gen.dag_full", "gen.dag_avg_deg") if sc.random() < 0.25 else SAMPLERS)
            rec = gen_call(g, cfg, api, None)
            if api == "gen.dag_avg_deg":
                rec["args"].update(p=g.randint(21, 30), return_ordering=True, debug=g.random() < 0.5)
                rec["nd"] = True
            if api == "gen.dag_full" and not rec.get("nd"):
                rec["args"].update(p=max(3, rec["args"]["p"]), w_max=round(rec["args"]["w_min"] + 1.0, 2))
                rec["nd"] = True
            shared = [s for s in sigs if s["api"] == api and s.get("m") and s["m"].get("id") and s["sig"] in evaluated]
            if shared and sc.random() < 0.5:
                # on a long-lived model that already served seeded calls
                rec["m"] = copy.deepcopy(sc.choice(shared)["m"])
                if api != "nd.sample":
                    rec["args"] = dict(rec["args"], do="omit", shift="omit", noise="omit")
                rec["on_shared"] = True
                rec["nd"] = nd_eligible(rec)
            rec["c"] = c
            if sc.random() < 0.3:
                # a loop body "helper call; sample" executed twice, where the caller gives the helper NO seed
                # (argument omitted or None): the helper may advance the global stream, it must not rewind it
                api2 = sc.choice(["utils.split_data", "utils.add_edges", "utils.remove_edges", "gen.dag_full",
                                  "gen.intervention_targets", "lganm.new"])
                between = gen_call(g, cfg, api2, "default" if api2 in LAYOUT_FREE else None)
                between["c"] = c
                between["between_nd"] = True
                ops.append(copy.deepcopy(between))
                ops.append(rec)
                ops.append(between)
            else:
                ops.append(rec)
            rec = copy.deepcopy(rec)
            if cfg.get("bursts") and rec.get("nd") and sc.random() < 0.5 and not cfg.get("huge") and \
                    rec.get("args", {}).get("n", 100) <= 40:
                rec["nd_burst"] = sc.choice([130, 520, 1030])     # a long unseeded session: no result may come back
            ops.append(rec)
            for j in evaluated:
                evaluated[j] = True
        else:
            f = gen_filler(g, cfg, sigs, state)
            f["c"] = c
            ops.append(f)
            for j in evaluated:
                evaluated[j] = True
        if not live and len(ops) >= 8 and sc.random() < 0.3:
            break
    npints_variation(st["npints"], ops)
    errstate_variation(st["errstate"], ops)
    invalid_calls(st["invalid"], ops)
    G.printoptions_variation(st["printoptions"], ops, at_start_only=False)
    G.bitgen_variation(st["bitgen"], ops)
    G.generator_seed_variation(st["genseed"], ops, lambda r: r.get("op") == "call" and r.get("api") in
                               ("lganm.new", "gen.dag_avg_deg", "gen.dag_full", "gen.intervention_targets",
                                "utils.split_data", "utils.add_edges", "utils.remove_edges") and not r.get("posseed"))
    np_star_faults(st["np_star"], ops)
    hash_twin_variation(st["hashtwin"], ops)
    warnings_variation(st["warnings"], ops)
    population_scribble_variation(st["popscribble"], ops)
    return cfg, ops


def invalid_calls(f, ops):
    """Caller errors as fillers: in a third of the runs a few calls of the history are repeated elsewhere with an
    argument the library rejects (or ought to): a non-integer or absurd number of edges, more targets than variables,
    ratios that do not sum to one, a negative sample size, a target that is not a variable.  They raise midway like
    any failed call; decided by a stream of its own, after generation."""
    r, k = f.random(), f.randint(1, 3)
    plan = [(f.random(), f.random(), f.random()) for _ in range(3)]
    calls = [rec for rec in ops if rec.get("op") == "call" and rec.get("arm") is None and not rec.get("fail")
             and not rec.get("burst") and not rec.get("nd_burst") and rec.get("seed") != "default"]
    if r >= 0.33 or not calls:
        return
    for pick, how, pos in plan[:k]:
        rec = copy.deepcopy(calls[int(pick * len(calls))])
        for key in ("sig", "nd", "between_nd", "relayout", "reordered", "posseed", "npints", "on_shared"):
            rec.pop(key, None)
        a, api = rec.setdefault("args", {}), rec["api"]
        if api in ("utils.add_edges", "utils.remove_edges"):
            a["k"] = [2.0, 1.5, -1, 10 ** 6][int(how * 4)]
        elif api == "gen.intervention_targets":
            a.update(size=a["p"] + 1 + int(how * 3), replace=False) if how < 0.5 else a.update(K=0)
        elif api == "utils.split_data":
            a["ratios"] = [[0.3, 0.3], [0.5, 0.6], [], [1.5, -0.5]][int(how * 4)]
        elif api in ("gen.dag_avg_deg", "gen.dag_full"):
            a["p"] = [0, -1, 2.5][int(how * 3)]
        elif api in ("lganm.sample", "nd.sample", "anm.sample"):
            if how < 0.5 or api == "nd.sample":
                a["n"] = -1 - int(how * 3)
            elif api == "lganm.sample":
                a["do"] = [[spec_p(rec["m"]) + int(how * 3), [0.0, 1.0]]]
            else:
                a["do"] = [[spec_p(rec["m"]) + int(how * 3), ["noise.normal", 0, 1]]]
        else:
            continue
        rec["fail"] = "call.invalid"
        rec["c"] = 0
        ops.insert(int(pos * (len(ops) + 1)), rec)


def errstate_variation(f, ops):
    """In about one run in twelve the application changes its numpy error state a few times during the session
    (np.seterr: stricter, or back to the default), and one Gaussian signature gets a nearly deterministic noise term
    (variance 1e-200: arithmetic on it underflows).  Decided by a stream of its own, after generation."""
    r, k = f.random(), f.randint(2, 4)
    plan = [(f.random(), f.choice([{"under": "raise"}, {"all": "raise"}, None, {"under": "raise", "over": "raise"}]))
            for _ in range(4)]
    sigs = sorted({rec["sig"] for rec in ops if "sig" in rec and rec.get("api") == "lganm.sample"
                   and not rec.get("args", {}).get("population")})
    pick, tgt, kind = f.random(), f.random(), f.choice(["noise", "do"])
    if r >= 0.085:
        return
    if sigs:
        sig = sigs[int(pick * len(sigs))]
        for rec in ops:
            if rec.get("sig") == sig:
                p = spec_p(rec["m"])
                rec["args"][kind] = [[int(tgt * p), [0.0, 1e-200]]]
    for pos, state in plan[:k]:
        ops.insert(int(pos * (len(ops) + 1)), {"c": 0, "op": "np.seterr", "state": state})


def hash_twin_variation(f, ops):
    """Values that are different and hash alike (CPython: hash(-1) == hash(-2), ints and floats): in one run in
    twelve one LGANM.sample signature on a long-lived model gets -2 (or -1) as an intervention value, and the same
    call with the other value in that place is made on that model right before one of its evaluations.  Anything that
    remembers distributions under a hash of their parameters hands the signature the twin's distribution.  Decided by
    a stream of its own, after generation."""
    r, pick, tgt, which = f.random(), f.random(), f.random(), f.random()
    kind, form, val = f.choice(["do", "do", "shift"]), f.choice(["pair", "pair", "scalar"]), f.choice([-1, -2, -1.0, -2.0])
    var = f.choice([0.5, 1.0, 2.0])
    seed_same = f.random() < 0.7
    sigs = sorted({rec["sig"] for rec in ops if "sig" in rec and rec.get("api") == "lganm.sample"
                   and rec.get("m", {}).get("id") and not rec.get("burst")})
    if r >= 0.085 or not sigs:
        return
    sig = sigs[int(pick * len(sigs))]
    idx = [i for i, rec in enumerate(ops) if rec.get("sig") == sig]
    twin = type(val)(-3 - val)                     # -1 <-> -2
    p = spec_p(ops[idx[0]]["m"])
    t = int(tgt * p)

    def value(v):
        return [[t, v]] if (form == "scalar" and kind == "do") else [[t, [v, var]]]

    for i in idx:
        ops[i]["args"][kind] = value(val)
    at = idx[1 + int(which * (len(idx) - 1))] if len(idx) > 1 else idx[0]
    rec = copy.deepcopy(ops[at])
    for key in ("sig", "nd", "between_nd", "relayout", "reordered", "posseed", "npints", "burst", "via"):
        rec.pop(key, None)
    rec["m"].pop("via", None)
    rec["args"][kind] = value(twin)
    rec["on_shared"] = True
    rec["hash_twin"] = True
    rec["c"] = 0
    if not seed_same:
        rec["seed"] = None
    ops.insert(at, rec)


def warnings_variation(f, ops):
    """In one run in twelve the application changes its warnings filters one to three times during the session
    (ignore RuntimeWarning / every warning, "once", "default", resetwarnings), and one NormalDistribution.sample signature
    gets a covariance that is symmetric but not positive semi-definite (numpy warns about it, and samples): code
    that looks at the warnings numpy emitted takes another path when they are filtered out.  Decided by a stream
    of its own, after generation."""
    from .canon import dec
    r, k, pick = f.random(), f.randint(1, 3), f.random()
    plan = [(f.random(), f.choice([{"action": "ignore", "category": "RuntimeWarning"}, {"action": "ignore"},
                                   {"action": "ignore", "category": "RuntimeWarning"}, {"action": "once"},
                                   {"action": "default", "category": "RuntimeWarning"}, None])) for _ in range(3)]
    if r >= 0.085:
        return
    sigs = sorted({rec["sig"] for rec in ops if "sig" in rec and rec.get("api") == "nd.sample"})
    if sigs:
        sig = sigs[int(pick * len(sigs))]
        m0 = [rec["m"] for rec in ops if rec.get("sig") == sig][0]
        mid = m0.get("id")
        cov = np.array(dec(m0["spec"]["cov"]), dtype=float, copy=True)
        if cov.ndim == 2 and len(cov) >= 2:
            cov[0, 1] = cov[1, 0] = 2.0 * max(abs(cov[0, 0]), abs(cov[1, 1])) + 1.0
            for rec in ops:
                m = rec.get("m")
                if isinstance(m, dict) and m.get("type") == "nd" and \
                        ((mid is not None and m.get("id") == mid) or rec.get("sig") == sig):
                    m["spec"]["cov"] = enc(cov)
    for pos, state in plan[:k]:
        ops.insert(int(pos * (len(ops) + 1)), {"c": 0, "op": "py.warnings", "state": state})


def population_scribble_variation(f, ops):
    """In one run in twelve the caller asks a signature's long-lived LGANM for the population distribution
    (sample(population=True), under the signature's own interventions or none), works in place on the mean and
    covariance it was handed, and the signature is evaluated again afterwards: what the library handed out must not
    be storage its later seeded samples are computed from.  Decided by a stream of its own, after generation."""
    r, pick, which, own = f.random(), f.random(), f.random(), f.random() < 0.5
    how = f.choice(["add", "zero", "shuffle"])
    sigs = sorted({rec["sig"] for rec in ops if "sig" in rec and rec.get("api") == "lganm.sample"
                   and rec.get("m", {}).get("id") and not rec.get("args", {}).get("population")})
    if r >= 0.085 or not sigs:
        return
    sig = sigs[int(pick * len(sigs))]
    idx = [i for i, rec in enumerate(ops) if rec.get("sig") == sig]
    at = idx[1 + int(which * (len(idx) - 1))] if len(idx) > 1 else idx[0]
    rec = copy.deepcopy(ops[at])
    for key in ("sig", "nd", "between_nd", "relayout", "reordered", "posseed", "npints", "burst", "via"):
        rec.pop(key, None)
    rec["m"].pop("via", None)
    a = rec["args"]
    if not own:
        a.update(do="omit", shift="omit", noise="omit")
    a["population"] = True
    rec.update(seed=None, on_shared=True, keep=True, c=0)
    ops.insert(at, {"c": 0, "op": "out.scribble", "which": "last_kept", "how": how})
    ops.insert(at, rec)


def npints_variation(f, ops):
    """Re-evaluations of a signature sometimes pass its integer arguments (p, K, k, n, size) as numpy integer scalars:
    equal values are the same arguments (decided by a stream of its own, after generation)."""
    seen = set()
    for rec in ops:
        r = f.random()
        if "sig" not in rec:
            continue
        if rec["sig"] in seen and r < 0.15 and not rec.get("burst"):
            rec["npints"] = True
        if rec["sig"] in seen and rec.get("api") == "lganm.new" and 0.15 <= r < 0.6:
            rec["attr_order"] = "vm"
        seen.add(rec["sig"])


def np_star_faults(f, ops):
    """Filler calls that die inside one of the library's numpy calls (seam "np.*": a failing allocation or the user's
    Ctrl-C), decided by a stream of its own after the history was generated.  Evaluations of a signature and the
    members of a non-degeneracy pair are never touched."""
    rate = f.choice([0, 0.05, 0.15, 0.3])
    for rec in ops:
        if rec.get("op") != "call":
            continue
        r, r2, k, e = f.random(), f.random(), 1 + int(f.expovariate(1 / 5.0)), f.choice(["MemoryError", "KeyboardInterrupt"])
        if "sig" in rec or "nd" in rec or any(rec.get(x) for x in ("between_nd", "burst", "nd_burst")):
            continue
        if rec.get("fail") == "seam.raise":
            if r2 < 0.5:
                rec["arm"] = ["np.*", k, e]
        elif rec.get("fail") is None and rec.get("arm") is None and r < (rate * 2 if rec.get("on_shared") else rate):
            rec["arm"] = ["np.*", k, e]
            rec["fail"] = "seam.raise"


# ---------------------------------------------------------------------------
# execution

def sigkey(rec):
    """Identity of a seeded call: API + literal arguments + seed.  None if the call is not
    covered by the statement (no seed, or a model whose parameters were drawn unseeded)."""
    if rec.get("op") != "call" or rec.get("seed") is None:
        return None
    if rec.get("seed") == "default" and rec["api"] not in LAYOUT_FREE:
        return None         # only split_data / add_edges / remove_edges have a seeded default (42)
    if rec.get("arm") is not None:
        return None
    m = rec.get("m")
    if m is not None:
        sp = m["spec"]
        if m["type"] == "lganm" and rec["api"] != "lganm.new" and sp.get("seed") is None and (
                isinstance(sp["means"], dict) and "__tuple__" in sp["means"]
                or isinstance(sp["variances"], dict) and "__tuple__" in sp["variances"]):
            return None
        if m["type"] == "anm":
            for kind in ("do", "shift", "noise"):
                v = rec.get("args", {}).get(kind)
                if isinstance(v, list) and any(spec[0] == "failing" for _, spec in v):
                    return None
        m = {"type": m["type"], "spec": sp}          # neither the shared id nor the way the object was obtained
    return jkey({"api": rec["api"], "m": m, "args": canonical_args(rec["api"], rec.get("args")), "seed": rec["seed"]})


LAYOUT_FREE = ("utils.add_edges", "utils.remove_edges", "utils.split_data")


def _strip_order(j):
    if isinstance(j, dict):
        if "__nd__" in j:
            return {"__nd__": {k: v for k, v in j["__nd__"].items() if k != "order"}}
        return {k: _strip_order(v) for k, v in j.items()}
    if isinstance(j, list):
        return [_strip_order(v) for v in j]
    return j


def canonical_args(api, a):
    """What 'the same arguments' means for the pairwise oracle: intervention dicts that are equal are the same
    whatever their insertion order; for the purely combinatorial seeded helpers (no floating-point
    arithmetic on the argument) an equal matrix in another memory layout is the same matrix."""
    if not isinstance(a, dict):
        return a
    a = dict(a)
    for kind in ("do", "shift", "noise"):
        if isinstance(a.get(kind), list):
            a[kind] = sorted(a[kind], key=lambda tv: tv[0])
    if api in LAYOUT_FREE:
        a = _strip_order(a)
    return a


def relayout(j):
    """The same arrays, C <-> Fortran ordered."""
    if isinstance(j, dict):
        if "__nd__" in j and len(j["__nd__"]["shape"]) == 2:
            d = dict(j["__nd__"])
            if d.get("order") == "F":
                d.pop("order")
            else:
                d["order"] = "F"
            return {"__nd__": d}
        return {k: relayout(v) for k, v in j.items()}
    if isinstance(j, list):
        return [relayout(v) for v in j]
    return j


def literal(rec):
    """The same call with no reference to world objects (for the pristine evaluation)."""
    r = {k: v for k, v in rec.items() if k not in ("c", "sig", "on_shared", "relayout", "reordered", "posseed",
                                                   "burst", "npints", "attr_order")}
    if "m" in r:
        r["m"] = {k: v for k, v in dict(r["m"], id=None).items() if k != "via"}
    return r


def variant(rec):
    api, a = rec["api"], rec.get("args", {})
    v = [api]
    if api in ("gen.dag_avg_deg", "gen.dag_full"):
        v.append("ord" if a.get("return_ordering") else "noord")
    if api == "gen.intervention_targets":
        v.append("repl" if a.get("replace") else "norepl")
        v.append("range" if isinstance(a.get("size"), list) else "int")
    if api in ("lganm.sample", "anm.sample"):
        for kind in ("do", "shift", "noise"):
            if isinstance(a.get(kind), list) and a[kind]:
                v.append(kind)
    if api == "lganm.sample":
        sp = rec["m"]["spec"]
        v.append("ranges" if isinstance(sp["means"], dict) and "__tuple__" in sp["means"] else "explicit")
    return "/".join(v)


def same_call(a, b):
    ka = {k: v for k, v in a.items() if k not in ("c", "posseed", "burst", "npints", "attr_order")}
    kb = {k: v for k, v in b.items() if k not in ("c", "posseed", "burst", "npints", "attr_order")}
    if "m" in ka and "m" in kb:
        ka["m"] = {k: v for k, v in ka["m"].items() if k != "via"}
        kb["m"] = {k: v for k, v in kb["m"].items() if k != "via"}
    return ka == kb


def execute(sempler, run_seed, ops, pristine_budget=4):
    w = World(sempler, run_seed, PROP)
    evs = w.events
    w.kept = []        # the last few objects returned by seeded calls (the caller still holds them)
    prev_rec = None
    for i, rec in enumerate(ops):
        w.step = i
        w.client = rec.get("c", 0)
        op = rec["op"]
        pre = w.rng_digest()
        try:
            if op == "call":
                out = w.call(invoke(w, rec), arm=rec.get("arm"))
                od = outcome_digest(*out)
                w.apis[rec["api"]] += 1
                if rec.get("hash_twin"):
                    w.probes["filler.hash_twin_of_a_signature(-1 / -2)"] += 1
                if rec.get("fail") == "callable.raise" and out[0] == "exc" \
                        and type(out[1]).__name__ == "InjectedCallableError":
                    w.faults["callable.raise"] += 1
                if "sig" not in rec:
                    w.faults[fkind({"rec": rec})] += 1
            elif op == "out.scribble":
                od = scribble_output(w, rec)
                out = None
            elif op in SHARED_OPS:
                od = SHARED_OPS[op](w, rec)
                out = None
            else:
                raise ValueError("unknown op %r" % op)
        except Skip:
            continue
        if op == "call" and rec.get("burst") and sigkey(rec) is not None:
            # a long session in one step: the same seeded call many times in a row
            for b in range(int(rec["burst"]) - 1):
                o2 = w.call(invoke(w, rec))
                if outcome_digest(*o2) != od:
                    w.violate("pair_differs", SITE[rec["api"]],
                              {"variant": variant(rec), "how": "repetition %d of a burst of %d identical seeded calls"
                               % (b + 2, rec["burst"]), "first": od, "later": outcome_digest(*o2), "seed": rec["seed"]})
                    break
            w.probes["burst.seeded_calls"] += 1
        if op == "call" and rec.get("nd_burst") and rec.get("nd") and rec.get("seed") is None and out[0] == "ok":
            seen = {od: 1}
            for b in range(int(rec["nd_burst"]) - 1):
                d2 = outcome_digest(*w.call(invoke(w, rec)))
                if d2 in seen:
                    w.violate("unseeded_degenerate", SITE[rec["api"]],
                              {"how": "call %d of a session of %d identical unseeded calls returned exactly the result "
                                      "of call %d" % (b + 2, rec["nd_burst"], seen[d2]), "digest": d2})
                    break
                seen[d2] = b + 2
            w.probes["burst.unseeded_calls"] += 1
        if op == "call" and out[0] == "ok" and (sigkey(rec) is not None or rec.get("keep")):
            w.kept.append(out[1])
            del w.kept[:-6]
            if rec.get("keep"):
                w.last_kept = out[1]
        w.record(rec, od)
        evs.append({"i": i, "rec": rec, "pre": pre, "od": od, "ok": out is not None and out[0] == "ok",
                    "sk": sigkey(rec), "err": repr(sorted(w.caller_err.items())) if w.caller_err else None,
                    "exc": (type(out[1]).__name__ if out is not None and out[0] == "exc" else None)})
    obligations = oracles(w, pristine_budget)
    return w, obligations


def scribble_output(w, rec):
    """In-place work of the caller on a returned object (incl. np.random.shuffle, a numpy random call)."""
    from .canon import arrays_of
    if rec["which"] == "last_kept":
        obj = getattr(w, "last_kept", None)
        if obj is None:
            raise Skip()
        w.last_kept = None
        w.probes["caller.works_in_place_on_a_population_distribution"] += 1
    else:
        if not w.kept:
            raise Skip()
        obj = w.kept[rec["which"] % len(w.kept)]
    how = rec.get("how", "shuffle")
    done = False
    targets = list(arrays_of(obj))
    if isinstance(obj, (list, tuple)):
        targets += [x for x in obj if isinstance(x, list)]
        if isinstance(obj, list):
            targets.append(obj)
    for a in targets:
        if isinstance(a, np.ndarray):
            if a.size == 0 or not a.flags.writeable:
                continue
            if how == "shuffle" and a.ndim >= 1 and len(a) > 1:
                np.random.shuffle(a)
            elif a.dtype == bool:
                a[...] = ~a
            elif how == "zero":
                a[...] = 0
            else:
                a += 1
            done = True
        elif isinstance(a, list) and a:
            if how == "shuffle":
                np.random.shuffle(a)
            else:
                a.append(a[0])
            done = True
    if done:
        w.faults["caller.scribble_output"] += 1
    return "ok:-"


def fkind(ev):
    """Kind of an event seen as a filler between two evaluations of a signature."""
    rec = ev["rec"]
    op = rec["op"]
    if op == "np.perturb":
        return "rng.reseed" if rec["kind"] == "bitgen" else "rng." + rec["kind"]
    if op == "py.random":
        return "rng.stdlib"
    if op == "entropy.draw":
        return "entropy"
    if op in ("gc", "py.import", "np.seterr", "np.printoptions"):
        return "gc"
    if op == "out.scribble":
        return "caller.scribble_output"
    if op == "call":
        if rec.get("fail"):
            return "call.fail"
        if rec.get("seed") is None:
            return "lib.unseeded"
        return "lib.seeded"
    return op


PERTURBING = {"rng.draw", "rng.reseed", "rng.setstate", "call.fail", "lib.unseeded", "lib.seeded",
              "caller.scribble_output"}
FK_BITS = ["rng.draw", "rng.reseed", "rng.setstate", "rng.getstate", "rng.stdlib", "entropy", "gc", "call.fail",
           "lib.unseeded", "lib.seeded", "caller.scribble_output"]


def oracles(w, pristine_budget):
    evs = w.events
    # 1. pairwise identity
    groups = {}
    for idx, ev in enumerate(evs):
        if ev["sk"] is not None:
            groups.setdefault(ev["sk"], []).append(idx)
    w.distinct = set()
    for sk, idxs in groups.items():
        first = evs[idxs[0]]
        for a, b in zip(idxs, idxs[1:]):
            ea, eb = evs[a], evs[b]
            fpe = "exc:FloatingPointError"
            if eb["err"] != first["err"]:
                w.probes["pair.under_different_error_states_of_the_caller"] += 1
            if eb["od"] != first["od"] and not (eb["err"] != first["err"] and fpe in (eb["od"], first["od"])):
                # (under a stricter error state of the caller a call may raise FloatingPointError instead of
                #  returning; what it returns, when it returns, is the same bits)
                w.violate("pair_differs", SITE[eb["rec"]["api"]],
                          {"variant": variant(eb["rec"]), "first_step": first["i"], "step": eb["i"],
                           "first": first["od"], "later": eb["od"], "seed": eb["rec"]["seed"]}, step=eb["i"])
            # probes / measure
            between = [fkind(e) for e in evs[a + 1:b]]
            kinds = set(between)
            differ = ea["pre"] != eb["pre"]
            rec = eb["rec"]
            perturbing = bool(kinds & PERTURBING)
            nontrivial = differ and perturbing
            if nontrivial:
                w.probes["pair.nontrivial"] += 1
                w.probes["api:" + variant(rec).split("/")[0]] += 1
                for part in variant(rec).split("/")[1:]:
                    w.probes["variant:" + rec["api"] + "/" + part] += 1
                if G.seed_value(rec["seed"]) == 0:
                    w.probes["pair.seed0"] += 1
                if G.seed_is_numpy(rec["seed"]):
                    w.probes["pair.numpy_integer_seed"] += 1
                if G.seed_value(rec["seed"]) >= 2 ** 32:
                    w.probes["pair.seed>=2**32"] += 1
                if G.seed_is_object(rec["seed"]):
                    w.probes["pair.seed_sequence_object_reused"] += 1
                if rec["seed"] == "default":
                    w.probes["pair.default_seed_argument_omitted"] += 1
                if "rng.reseed" in kinds:
                    w.probes["pair.sep.reseed"] += 1
                if kinds and kinds <= {"rng.draw", "gc", "rng.stdlib", "rng.getstate"} and "rng.draw" in kinds:
                    w.probes["pair.sep.draw_only"] += 1
                if "call.fail" in kinds:
                    w.probes["pair.sep.failed_seeded_call"] += 1
                    mid0 = rec.get("m", {}).get("id") if rec.get("m") else None
                    if mid0 and any(e["rec"].get("fail") and e["rec"].get("on_shared") and e["rec"]["m"].get("id") == mid0
                                    for e in evs[a + 1:b]):
                        w.probes["pair.sep.failed_call_on_same_model"] += 1
                if "entropy" in kinds:
                    w.probes["pair.sep.entropy"] += 1
                if "rng.stdlib" in kinds:
                    w.probes["pair.sep.py_random"] += 1
                if "rng.setstate" in kinds:
                    w.probes["pair.sep.setstate"] += 1
                if "caller.scribble_output" in kinds:
                    w.probes["pair.sep.caller_scribbled_on_a_returned_object"] += 1
                mid = rec.get("m", {}).get("id") if rec.get("m") else None
                if mid and any(e["rec"].get("on_shared") and e["rec"]["m"].get("id") == mid
                               for e in evs[a + 1:b]):
                    w.probes["pair.sep.intervened_call_on_shared_model"] += 1
                if rec["api"] == "anm.sample":
                    for s in rec["m"]["spec"]["noise"]:
                        w.probes["noise:" + s[0]] += 1
                if ea["rec"].get("c") != eb["rec"].get("c"):
                    w.probes["pair.different_clients"] += 1
                if eb["rec"].get("relayout") != ea["rec"].get("relayout"):
                    w.probes["pair.other_memory_layout"] += 1
                if eb["rec"].get("reordered") != ea["rec"].get("reordered"):
                    w.probes["pair.other_dict_insertion_order"] += 1
                if eb["rec"].get("posseed") != ea["rec"].get("posseed"):
                    w.probes["pair.seed_passed_positionally"] += 1
                if not eb["ok"]:
                    w.probes["pair.exception_outcome"] += 1
            else:
                w.probes["pair.trivial"] += 1
            mask = sum(1 << FK_BITS.index(k) for k in kinds if k in FK_BITS)
            nb = len(between)
            bucket = "0" if nb == 0 else "1" if nb == 1 else "2-4" if nb <= 4 else "5+"
            shared = bool(rec.get("m") and rec["m"].get("id"))
            w.distinct.add((rec["api"], G.seed_class(rec["seed"]), shared, mask, bucket, differ, nontrivial))
    # 4. non-degeneracy of consecutive unseeded sampling calls: immediately consecutive, or separated only by
    #    library calls for which the caller gave no seed (an explicitly seeded call in between may reset the
    #    global stream by the library's documented idiom and is therefore not allowed in the gap)
    pairs = []
    for bi in range(1, len(evs)):
        rb = evs[bi]["rec"]
        if not (rb.get("nd") and rb["op"] == "call" and rb.get("seed") is None):
            continue
        ai = bi - 1
        while ai >= 0 and bi - ai <= 3 and evs[ai]["rec"].get("between_nd") and evs[ai]["rec"].get("op") == "call" \
                and evs[ai]["rec"].get("seed") in (None, "default"):
            ai -= 1
        if ai >= 0 and evs[ai]["rec"].get("nd"):
            pairs.append((evs[ai], evs[bi], bi - ai - 1))
    for a, b, gap in pairs:
        ra, rb = a["rec"], b["rec"]
        if rb.get("nd") and ra.get("nd") and rb["op"] == "call" and rb.get("seed") is None and same_call(ra, rb) \
                and a["ok"] and b["ok"]:
            w.probes["nd:" + rb["api"]] += 1
            if gap:
                w.probes["nd.separated_by_an_unseeded_library_call"] += 1
            if rb.get("on_shared"):
                w.probes["nd.on_model_with_seeded_history"] += 1
            if a["od"] == b["od"]:
                w.violate("unseeded_degenerate", SITE[rb["api"]],
                          {"steps": [a["i"], b["i"]], "digest": a["od"]}, step=b["i"])
    # 2. history-free identity: obligations evaluated by the parent in pristine children
    sks = sorted(groups, key=lambda k: groups[k][0])
    sched = w.streams["pristine"]
    if pristine_budget is not None and len(sks) > pristine_budget:
        sks = sched.sample(sks, pristine_budget)
    obligations = []
    for sk in sks:
        ev = evs[groups[sk][0]]
        obligations.append({"ops": [literal(ev["rec"])], "expect": ev["od"], "step": ev["i"],
                            "site": SITE[ev["rec"]["api"]], "variant": variant(ev["rec"])})
        if ev["err"]:
            obligations[-1]["both_ok_only"] = True      # the reference world runs under numpy's default error state
    return obligations


def pristine_eval(sempler, ops):
    """Runs in a fresh fork of a process that never executed an operation."""
    w = World(sempler, 0, PROP, reference=True)
    od = None
    for rec in ops:
        out = w.call(invoke(w, rec), arm=rec.get("arm"))
        od = outcome_digest(*out)
    return od


def seeded_digests(w):
    """(sigkey, outcome digest) of every seeded event, for the cross-process oracle."""
    return [(e["sk"], e["od"]) for e in w.events if e["sk"] is not None]


RULE = ("Each run is one seeded history of 8-60 operations by 1-4 clients: 3-8 seeded call signatures (API + literal "
        "arguments + seed), each evaluated 2-6 times at scheduler-chosen positions, interleaved with fillers (global "
        "RNG draws / reseeds / set_state, stdlib random, default_rng(None) entropy, other seeded and unseeded library "
        "calls, seeded calls that fail midway, gc). A case is a pair of consecutive evaluations of one signature; it "
        "is abstracted to (API, seed class, shared/fresh model, bitmask of filler kinds between, bucketed filler "
        "count, global-RNG pre-states differ). distinct_nontrivial counts distinct abstractions whose pre-states "
        "differ and that have at least one perturbing filler in between.")

ASSUMPTIONS = [
    "numpy and CPython are trusted; bit-identity is compared within one interpreter build and numpy version",
    "seeds restricted to [0, 2**32); p <= 7 (generators <= 12), n <= 40, histories <= 60 operations",
    "call-level interleavings only: fillers run between library calls, never inside one (DESIGN 7.1)",
    "a clean batch is evidence over the sampled histories, not a proof over all histories",
]

REQUIRED_PROBES = ["pair.nontrivial", "pair.seed0", "pair.sep.reseed", "pair.sep.draw_only",
                   "pair.sep.failed_seeded_call", "pair.sep.entropy", "pair.sep.py_random", "pair.sep.setstate",
                   "pair.sep.intervened_call_on_shared_model", "pair.different_clients", "pair.numpy_integer_seed", "pair.sep.failed_call_on_same_model",
                   "pair.seed>=2**32", "pair.sep.caller_scribbled_on_a_returned_object",
                   "pair.seed_sequence_object_reused", "pair.other_memory_layout", "pair.other_dict_insertion_order",
                   "pair.seed_passed_positionally", "burst.seeded_calls", "model.used_through_a_deepcopy",
                   "model.used_through_a_pickle"] + \
                  ["api:" + a for a in APIS] + ["noise:" + n for n in G.NOISE_FACTORIES] + \
                  ["nd:" + a for a in SAMPLERS] + ["nd.on_model_with_seeded_history", "nd:gen.dag_full",
                                                     "nd:gen.dag_avg_deg", "pair.default_seed_argument_omitted",
                                                     "nd.separated_by_an_unseeded_library_call"]

REQUIRED_PROBES = REQUIRED_PROBES + ["model.parameters_read_in_another_order", "pair.under_different_error_states_of_the_caller", "call.integers_as_numpy_scalars", "thread.calls_outside_main_thread", "fault.died_in_a_numpy_call(np.*)", "seed.given_as_Generator", "seed.given_as_BitGenerator", "filler.hash_twin_of_a_signature(-1 / -2)", "caller.changed_warnings_filters", "caller.works_in_place_on_a_population_distribution"]


def simplify(op):
    """Simpler variants of one op for the minimiser."""
    if op.get("op") != "call":
        if op.get("op") == "np.perturb" and op.get("n", 1) > 1:
            yield dict(op, n=1)
        return
    a = op.get("args") or {}
    if a.get("n", 0) > 1:
        yield dict(op, args=dict(a, n=1))
        yield dict(op, args=dict(a, n=a["n"] // 2))
    for kind in ("do", "shift", "noise"):
        if isinstance(a.get(kind), list) and a[kind]:
            yield dict(op, args=dict(a, **{kind: "omit"}))


MODELLED = {"sempler.lganm.LGANM.__init__": "lganm.new", "sempler.lganm.LGANM.sample": "lganm.sample",
            "sempler.normal_distribution.NormalDistribution.sample": "nd.sample", "sempler.anm.ANM.sample": "anm.sample",
            "sempler.generators.dag_avg_deg": "gen.dag_avg_deg", "sempler.generators.dag_full": "gen.dag_full",
            "sempler.generators.intervention_targets": "gen.intervention_targets",
            "sempler.utils.split_data": "utils.split_data", "sempler.utils.add_edges": "utils.add_edges",
            "sempler.utils.remove_edges": "utils.remove_edges"}


def discover(S):
    """Public callables of sempler that take a random_state, by introspection: anything the op
    catalogue does not model is reported in the evidence (never as a violation)."""
    import inspect
    import importlib
    found = []
    for mname in ("lganm", "anm", "normal_distribution", "generators", "utils", "noise", "functions", "semi"):
        try:
            mod = importlib.import_module("sempler." + mname)
        except Exception:
            continue
        for name, obj in sorted(vars(mod).items()):
            if name.startswith("_") or getattr(obj, "__module__", None) != mod.__name__:
                continue
            if inspect.isfunction(obj):
                if "random_state" in inspect.signature(obj).parameters:
                    found.append("%s.%s" % (mod.__name__, name))
            elif inspect.isclass(obj):
                for mn, meth in sorted(vars(obj).items()):
                    if inspect.isfunction(meth) and (not mn.startswith("_") or mn == "__init__"):
                        if "random_state" in inspect.signature(meth).parameters:
                            found.append("%s.%s.%s" % (mod.__name__, name, mn))
    return {"discovered": found, "modelled": [f for f in found if f in MODELLED],
            "unmodelled": [f for f in found if f not in MODELLED],
            "note": "sempler.semi.DRFNet.sample is decided under C19 (needs the simulated R peer)"}
