"""Catalogue of callables used as ANM assignments, noise and intervention distributions
(DESIGN 2.2, S6).  A callable is named by a JSON spec [name, params...] so that op records
are self-contained.
"""
import numpy as np


class InjectedCallableError(RuntimeError):
    pass


class ParamCallable:
    """Assignment function whose parameters live in mutable attributes (a callable
    *instance*): deepcopy matters for it, unlike for plain functions."""

    def __init__(self, coefs, b):
        self.coefs = np.array(coefs, dtype=float)
        self.b = float(b)

    def __call__(self, X):
        k = X.shape[1]
        c = np.resize(self.coefs, k) if k else np.zeros(0)
        return X @ c + self.b


class Regressor:
    """A fitted-regressor-like object: the assignment handed to ANM is its bound method `predict`."""

    def __init__(self, coefs, b):
        self.coefs = np.array(coefs, dtype=float)
        self.b = float(b)

    def predict(self, X):
        k = X.shape[1]
        c = np.resize(self.coefs, k) if k else np.zeros(0)
        return X @ c + self.b


class ParamNoise:
    """Noise distribution instance with mutable parameters, drawing from numpy's global
    generator like the library's own factories do."""

    def __init__(self, loc, scale):
        self.params = np.array([loc, scale], dtype=float)

    def __call__(self, n):
        return np.random.normal(self.params[0], self.params[1], n)


class ReplayNoise:
    """A noise 'distribution' that replays a fixed, precomputed sequence and hands out a view of the storage
    it owns (legal for a user callable: it returns n values)."""

    def __init__(self, values):
        self.values = np.array(values, dtype=float)

    def __call__(self, n):
        reps = -(-max(int(n), 1) // len(self.values))
        if reps > 1:
            return np.tile(self.values, reps)[:n]
        return self.values[:n]


class NDNoise:
    """Noise drawn from a sempler.NormalDistribution that the callable object holds (a user callable whose
    state contains one of the library's own model objects)."""

    def __init__(self, mean, var):
        import sys
        self.dist = sys.modules["sempler"].NormalDistribution(np.array([float(mean)]), np.array([[float(var)]]))

    def __call__(self, n):
        return self.dist.sample(n)[:, 0]


class Failing:
    """Distribution that raises at its k-th invocation (fault kind callable.raise)."""
    _semsim_volatile = ("calls", "fired")      # its own bookkeeping, not caller data

    def __init__(self, k, inner, exc):
        self.k = k
        self.inner = inner
        self.exc = exc
        self.calls = 0
        self.fired = 0

    def __call__(self, n):
        self.calls += 1
        if self.calls == self.k:
            self.fired += 1
            if self.exc == "KeyboardInterrupt":
                raise KeyboardInterrupt("injected by simulator")
            raise InjectedCallableError("injected by simulator")
        return self.inner(n)


def _lin(coefs, b):
    coefs = tuple(float(c) for c in coefs)

    def lin(X):
        k = X.shape[1]
        c = np.resize(np.array(coefs), k) if k else np.zeros(0)
        return X @ c + b
    return lin


def _lin_with(X, coefs=None, b=0.0):
    k = X.shape[1]
    c = np.resize(coefs, k) if k else np.zeros(0)
    return X @ c + b


def _sin(X):
    return np.sin(X).sum(axis=1)


def _sumsq(X):
    return (X ** 2).sum(axis=1) * 0.25


def _tanh(X):
    return np.tanh(X.sum(axis=1))


def make_fn(spec, sempler_noise):
    """Build the callable named by spec.  Returns None for ['null']."""
    name = spec[0]
    if name == "null":
        return None
    if name == "lin":
        return _lin(spec[1], spec[2])
    if name == "sin":
        return _sin
    if name == "sumsq":
        return _sumsq
    if name == "tanh":
        return _tanh
    if name == "param":
        return ParamCallable(spec[1], spec[2])
    if name == "bound":
        return Regressor(spec[1], spec[2]).predict
    if name == "partial":
        import functools
        return functools.partial(_lin_with, coefs=np.array(spec[1], dtype=float), b=float(spec[2]))
    if name == "paramnoise":
        return ParamNoise(spec[1], spec[2])
    if name == "replay":
        return ReplayNoise(spec[1])
    if name == "ndnoise":
        return NDNoise(spec[1], spec[2])
    if name == "noise.normal":
        return sempler_noise.normal(spec[1], spec[2])
    if name == "noise.uniform":
        return sempler_noise.uniform(spec[1], spec[2])
    if name == "noise.laplace":
        return sempler_noise.laplace(spec[1], spec[2])
    if name == "noise.zero":
        return sempler_noise.zero()
    if name == "failing":
        return Failing(spec[1], make_fn(spec[2], sempler_noise), spec[3])
    raise ValueError("unknown callable spec %r" % (spec,))


def is_random_noise(spec):
    """True if the noise spec has positive variance (for the non-degeneracy oracle)."""
    if spec[0] == "held":
        return is_random_noise(spec[2])
    n = spec[0]
    if n == "noise.normal":
        return spec[2] > 0
    if n == "noise.uniform":
        return spec[2] > spec[1]
    if n == "noise.laplace":
        return spec[2] > 0
    if n in ("paramnoise", "ndnoise"):
        return spec[2] > 0
    return False
