"""C14 — models are immutable under use; caller data is never modified (DESIGN section 4)."""
import copy

import numpy as np

from . import gen_common as G
from . import c14_utils as U
from .canon import enc, dec, digest, jkey, outcome_digest, arrays_of, plain, equalish
from .catalogue import ParamCallable, ParamNoise
from .seeds import Streams
from .world import World, SHARED_OPS, Skip

PROP = "C14"
CLS = {"lganm": "LGANM", "nd": "NormalDistribution", "anm": "ANM"}
WINDOW = 16         # earlier results re-checked after every step


# ===========================================================================
# execution
# ===========================================================================

class State:
    def __init__(self):
        self.bufs = {}       # caller-owned objects: id -> object
        self.models = {}     # id -> dict(type, obj, spec(private literal), snap, law, p, flagged)
        self.results = {}    # id -> dict(obj, digest, site)   (insertion ordered)
        self.first = {}      # comparable-op key -> (od, plain, step)
        self.oblig = {}      # key -> obligation
        self.distinct = set()
        self.hist = {}       # model id -> dict(len, faults bitmask, interventions)
        self.dropped_ids = set()
        self.errstate = None


def is_ref(x):
    return isinstance(x, dict) and "__ref__" in x


def shares(a, b):
    try:
        return np.shares_memory(a, b)
    except Exception:
        return np.may_share_memory(a, b)


def any_alias(xs, ys):
    for a in xs:
        if a.size == 0:
            continue
        for b in ys:
            if b.size and shares(a, b):
                return True
    return False


def public_attrs(obj):
    return {k: v for k, v in vars(obj).items() if not k.startswith("_")}


def snapshot(obj):
    return {k: digest(v) for k, v in public_attrs(obj).items()}


# -- argument building -------------------------------------------------------

def build_arg(w, st, j):
    """JSON literal / reference / in-world pre-call -> a caller-owned Python value."""
    if is_ref(j):
        rid = j["__ref__"]
        if rid in st.bufs:
            return st.bufs[rid]
        if rid in st.models:
            if j.get("attr"):          # the caller passes on one of its model's own attributes (plot_graph(model.W))
                v = getattr(st.models[rid]["obj"], j["attr"], None)
                if not isinstance(v, np.ndarray):
                    raise Skip()
                w.probes["arg.is_an_attribute_of_a_live_model"] += 1
                return v
            return st.models[rid]["obj"]
        if rid in st.results:
            return st.results[rid]["obj"]
        raise Skip()
    if isinstance(j, dict) and "__call__" in j:
        fn, args = j["__call__"]
        vals = [build_arg(w, st, a) for a in args]
        if fn == "orient_one":
            P = np.array(vals[0], copy=True)
            fro, to = np.where(np.logical_and(P != 0, P.T != 0))
            if len(fro):
                k = vals[1] % len(fro)
                P[to[k], fro[k]] = 0
            return P
        out = w.call(getattr(w.sempler.utils, fn), *vals)
        if out[0] == "exc":
            raise Skip()
        return out[1]
    if isinstance(j, dict) and "__fn__" in j:
        return w.fn(j["__fn__"])
    if isinstance(j, dict) and "__ivs__" in j:
        kind, lst = j["__ivs__"]
        if lst is None:
            return None
        if kind.endswith(".dd"):
            # a dict subclass with __missing__ (collections.defaultdict): reading an absent key would insert it
            import collections
            base = build_arg(w, st, {"__ivs__": [kind[:-3], lst]})
            factory = (lambda: (0.0, 1.0)) if kind.startswith("lganm") else (lambda: w.fn(["noise.zero"]))
            return collections.defaultdict(factory, base)
        if kind == "lganm":
            return dict((t, tuple(v) if isinstance(v, list) else v) for t, v in lst)
        if kind == "lganm.npkeys":
            return dict((np.int64(t), tuple(np.float64(x) for x in v) if isinstance(v, list) else v) for t, v in lst)
        return dict((t, w.fn(s)) for t, s in lst)
    return dec(j)


def method_site(mtype, method):
    return "%s.%s" % (CLS[mtype], method)


# -- handlers ----------------------------------------------------------------

def h_buf_new(w, st, rec):
    v = dec(rec["value"])
    if rec.get("as") == "list":
        v = v.tolist()
    elif rec.get("as") == "0d" and isinstance(v, np.ndarray) and v.size == 1:
        v = np.array(v.ravel()[0])          # a 0-d array: np.atleast_1d / atleast_2d give a VIEW of it
        w.probes["buf.lower_rank"] += 1
    elif rec.get("as") == "1d" and isinstance(v, np.ndarray) and v.size == 1:
        v = v.reshape(1).copy()
        w.probes["buf.lower_rank"] += 1
    elif rec.get("as") == "pandas" and isinstance(v, np.ndarray) and v.ndim in (1, 2) and v.size \
            and v.dtype.kind in "fi":
        import pandas as pd
        base = np.array(v, copy=True)
        st.bufs[rec["id"] + ".base"] = base
        v = pd.Series(base, copy=False) if base.ndim == 1 else pd.DataFrame(base, copy=False)
        w.probes["buf.pandas"] += 1
    elif rec.get("as") == "roview" and isinstance(v, np.ndarray) and v.size:
        # a read-only view of storage the caller can still write to (np.broadcast_to, np.diagonal, ... give such)
        st.bufs[rec["id"] + ".base"] = v
        v = v.view()
        v.flags.writeable = False
        w.probes["buf.readonly_view"] += 1
    elif rec.get("as") == "col" and isinstance(v, np.ndarray) and v.ndim == 1 and v.size:
        v = v.reshape(-1, 1).copy()          # a p x 1 column instead of a vector
        w.probes["buf.column_vector"] += 1
    elif rec.get("as") == "view" and isinstance(v, np.ndarray) and v.ndim in (1, 2) and v.size:
        # a non-contiguous view into a larger array the caller owns
        base = np.zeros(tuple(2 * d for d in v.shape), dtype=v.dtype)
        sl = tuple(slice(None, None, 2) for _ in v.shape)
        base[sl] = v
        st.bufs[rec["id"] + ".base"] = base
        v = base[sl]
        w.probes["buf.view"] += 1
    st.bufs[rec["id"]] = v
    return "ok:-", None


def model_ctor(w, st, mtype, params):
    """params: dict name -> python value (caller-owned).  Returns callable doing the construction."""
    S = w.sempler
    if mtype == "lganm" and params.get("bykw"):
        return lambda: S.LGANM(W=params["W"], means=params["means"], variances=params["variances"],
                               random_state=G.seed_object(w, params.get("seed")))
    if mtype == "anm" and params.get("bykw"):
        return lambda: S.ANM(A=params["A"], assignments=params["assign"], noise_distributions=params["noise"])
    if mtype == "lganm":
        return lambda: S.LGANM(params["W"], params["means"], params["variances"], random_state=G.seed_object(w, params.get("seed")))
    if mtype == "nd":
        if params.get("check_valid"):
            import warnings

            def f():
                with warnings.catch_warnings():
                    warnings.simplefilter("ignore")
                    return S.NormalDistribution(params["mean"], params["cov"], check_valid=params["check_valid"])
            return f
        return lambda: S.NormalDistribution(params["mean"], params["cov"])
    if mtype == "anm":
        return lambda: S.ANM(params["A"], params["assign"], params["noise"])
    raise ValueError(mtype)


PARAMS = {"lganm": ("W", "means", "variances"), "nd": ("mean", "cov"), "anm": ("A",)}


def spec_params(w, st, rec):
    """Resolve the constructor arguments of an m.new record.  Returns (params, private literal spec)."""
    mtype = rec["type"]
    params, spec = {}, {"type": mtype}
    for k in PARAMS[mtype]:
        v = build_arg(w, st, rec[k])
        params[k] = v
        # private literal copy (pandas objects are recorded by value: the twin is built from an equal ndarray)
        spec[k] = enc(np.array(np.asarray(v), copy=True)) if type(v).__module__.startswith("pandas") else enc(v)
    if mtype == "lganm":
        params["seed"] = spec["seed"] = rec.get("seed")
    if rec.get("bykw"):
        params["bykw"] = True
    if mtype == "nd" and rec.get("check_valid"):
        params["check_valid"] = spec["check_valid"] = rec["check_valid"]
        w.probes["nd.check_valid"] += 1
    if mtype == "anm":
        params["assign"] = [w.fn(s) for s in rec["assign"]]
        params["noise"] = [w.fn(s) for s in rec["noise"]]
        spec["assign"] = rec["assign"]
        spec["noise"] = rec["noise"]
    return params, spec


def twin_params(w, spec):
    """Fresh constructor arguments from the checker's private literal copy."""
    mtype = spec["type"]
    params = {k: dec(spec[k]) for k in PARAMS[mtype]}
    if mtype == "lganm":
        params["seed"] = spec.get("seed")
    if mtype == "nd" and spec.get("check_valid"):
        params["check_valid"] = spec["check_valid"]
    if mtype == "anm":
        params["assign"] = [w.fn(s) for s in spec["assign"]]
        params["noise"] = [w.fn(s) for s in spec["noise"]]
    return params


def register_model(w, st, mid, mtype, obj, spec, from_bufs=()):
    m = {"type": mtype, "obj": obj, "spec": spec, "snap": snapshot(obj), "law": None, "p": getattr(obj, "p", None),
         "bufs": list(from_bufs), "born": w.step, "ncalls": 0, "fmask": 0, "iv": False}
    m["law"] = obs_law(w, obj, mtype)
    st.models[mid] = m
    if id(obj) in st.dropped_ids:
        w.probes["gc.model_id_reused"] += 1
    return m


def obs_law(w, obj, mtype="lganm"):
    """The observational distribution as the API shows it with all-default arguments: the population
    law for an LGANM; for ANM and NormalDistribution a small observational sample under a fixed
    seed (numpy's global generator is saved and restored around it, so the probe leaves no trace
    in the world's random stream)."""
    if mtype == "lganm":
        out = w.call(lambda: obj.sample(population=True))
        return plain(out[1])
    state = np.random.get_state()
    try:
        out = w.call(lambda: obj.sample(3, random_state=20231))
    finally:
        np.random.set_state(state)
    return plain(out[1])


def h_m_new(w, st, rec):
    mtype = rec["type"]
    site = CLS[mtype] + ".__init__"
    params, spec = spec_params(w, st, rec)
    args = [params[k] for k in PARAMS[mtype]]
    if mtype == "anm":
        args += [params["assign"], params["noise"]]
    pre = [digest(a) for a in args]
    out = w.call(model_ctor(w, st, mtype, params), arm=rec.get("arm"))
    post = [digest(a) for a in args]
    if pre != post:
        w.violate("argument_modified", site, {"which": [i for i, (a, b) in enumerate(zip(pre, post)) if a != b]})
    if out[0] == "ok":
        obj = out[1]
        if any_alias(arrays_of(obj), arrays_of(args)):
            w.violate("result_aliases_argument", site, {"what": "model storage shares memory with a constructor argument"})
        for name, lst in (("assignments", params.get("assign")), ("noise_distributions", params.get("noise"))):
            if lst is not None and getattr(obj, name, None) is lst:
                w.violate("result_aliases_argument", site, {"what": "model keeps the caller's %s list" % name})
        if mtype == "lganm":
            # sampled parameters: the private copy records the values the model was born with
            for k, attr in (("means", "means"), ("variances", "variances")):
                if isinstance(params[k], tuple):
                    spec[k] = enc(np.array(getattr(obj, attr), copy=True))
            spec["seed"] = None
        refs = [rec[k]["__ref__"] for k in PARAMS[mtype] if is_ref(rec[k])]
        if rec.get("born"):
            # the caller's long-lived model IS a deep copy / an unpickled copy of the constructed one
            from .apis import clone
            obj = clone(obj, rec["born"])
            w.probes["model.lives_as_a_" + rec["born"]] += 1
        register_model(w, st, rec["id"], mtype, obj, spec, refs)
        if any(sum(1 for mm in st.models.values() if r in mm["bufs"]) >= 2 for r in refs):
            w.probes["two_models_from_one_caller_array"] += 1
        if any(r in st.results for r in refs):
            w.probes["model_from_generator_output"] += 1
        if mtype == "anm":
            st.bufs[rec["id"] + ".assign"] = params["assign"]
            st.bufs[rec["id"] + ".noise"] = params["noise"]
    w.apis[site] += 1
    return outcome_digest(*out), out


def call_method(w, st, obj, mtype, method, a, seed, argvals=None):
    """Returns (callable, list of caller-owned argument values)."""
    args = []
    if method == "sample" and mtype == "lganm":
        kw = {}
        for short, name in (("do", "do_interventions"), ("shift", "shift_interventions"), ("noise", "noise_interventions")):
            v = a.get(short, "omit")
            if v == "omit":
                continue
            kw[name] = build_arg(w, st, {"__ivs__": [("lganm.npkeys" if a.get("npkeys") else "lganm") +
                                                      (".dd" if a.get("defaultdict") else ""), v]})
            args.append(kw[name])
        if a.get("population"):
            kw["population"] = True
        _same_dict(a, kw, args)
        if "n" in a:
            return (lambda: obj.sample(a["n"], random_state=seed, **kw)), args
        return (lambda: obj.sample(random_state=seed, **kw)), args
    if method == "sample" and mtype == "anm":
        kw = {}
        for short, name in (("do", "do_interventions"), ("shift", "shift_interventions"), ("noise", "noise_interventions")):
            v = a.get(short, "omit")
            if v == "omit":
                continue
            kw[name] = build_arg(w, st, {"__ivs__": ["anm" + (".dd" if a.get("defaultdict") else ""), v]})
            args.append(kw[name])
        _same_dict(a, kw, args)
        return (lambda: obj.sample(a["n"], random_state=seed, **kw)), args
    if method == "sample":
        return (lambda: obj.sample(a["n"], random_state=seed)), args
    if method == "marginal":
        X = build_arg(w, st, a["X"])
        if a.get("bykw"):
            return (lambda: obj.marginal(X=X)), [X]
        return (lambda: obj.marginal(X)), [X]
    if method == "conditional":
        Y, X, x = (build_arg(w, st, a[k]) for k in ("Y", "X", "x"))
        if a.get("bykw"):
            return (lambda: obj.conditional(Y=Y, X=X, x=x)), [Y, X, x]
        return (lambda: obj.conditional(Y, X, x)), [Y, X, x]
    if method in ("regress", "mse"):
        Xs = build_arg(w, st, a["Xs"])
        if a.get("bykw"):
            return (lambda: getattr(obj, method)(y=a["y"], Xs=Xs)), [Xs]
        return (lambda: getattr(obj, method)(a["y"], Xs)), [Xs]
    if method == "equal":
        other = build_arg(w, st, a["dist"])
        kw = {k: a[k] for k in ("rtol", "atol") if k in a}
        return (lambda: obj.equal(other, **kw)), [other]
    if method == "str":
        return (lambda: str(obj)), args
    raise ValueError(method)


def canonical_args(a):
    """Equal intervention dicts are the same argument whatever their insertion order or container class."""
    a = {k: v for k, v in a.items() if k not in ("defaultdict", "bykw")}
    for kind in ("do", "shift", "noise"):
        if isinstance(a.get(kind), list):
            a[kind] = sorted(a[kind], key=lambda tv: tv[0])
    return a


def _same_dict(a, kw, args):
    """The caller passes one dict object for two intervention parameters."""
    sd = a.get("same_dict")
    if sd:
        n1, n2 = (s + "_interventions" for s in sd)
        if n1 in kw and n2 in kw and kw[n1] is not None:
            args[:] = [x for x in args if x is not kw[n2]]
            kw[n2] = kw[n1]


def comparable(rec):
    """Deterministic, or seeded: the result is a function of the arguments only."""
    if rec.get("arm") is not None:
        return False
    method, a = rec["method"], rec.get("args", {})
    if method == "sample":
        if a.get("population"):
            return True
        if rec.get("seed") is None:
            return False
        for kind in ("do", "shift", "noise"):
            v = a.get(kind)
            if isinstance(v, list) and any(isinstance(s, list) and s and s[0] == "failing" for _, s in v):
                return False
    if method == "equal":
        return False
    return True


def compare_history(w, st, key, rec, out, site):
    """Oracle 3, first-vs-later.  Also files the pristine obligation for the first event."""
    od = outcome_digest(*out)
    cur = plain(out[1])
    f = st.first.get(key)
    if f is None:
        st.first[key] = (od, cur, w.step)
        return True
    w.probes["history.first_vs_later"] += 1
    if f[0] != od and not equalish(f[1], cur):
        w.violate("result_depends_on_history", site,
                  {"how": "first-vs-later", "first_step": f[2], "first": f[0], "later": od})
        return False
    if f[0] != od:
        w.probes["tolerance_used"] += 1
    return True


def h_m_call(w, st, rec):
    m = st.models.get(rec["m"])
    if m is None:
        raise Skip()
    obj, mtype, method = m["obj"], m["type"], rec["method"]
    if rec.get("via"):
        from .apis import clone
        obj = clone(obj, rec["via"])           # the caller works on an equal copy of its model
        w.probes["model.used_through_a_copy"] += 1
    site = method_site(mtype, method)
    a = rec.get("args", {})
    fn, args = call_method(w, st, obj, mtype, method, a, G.seed_object(w, rec.get("seed")))
    pre = [digest(x) for x in args]
    out = w.call(fn, arm=rec.get("arm"))
    seam_calls = dict(w.last_seam_calls)
    post = [digest(x) for x in args]
    w.apis[site] += 1
    m["ncalls"] += 1
    if any(isinstance(a.get(k), list) and a.get(k) for k in ("do", "shift", "noise")):
        m["iv"] = True
    note_probes_call(w, m, rec, out)
    if rec.get("hash_twin"):
        w.probes["call.after_its_hash_twin(-1 / -2)"] += 1
    if rec.get("giant") and out[0] == "ok":
        w.probes["sample.giant(>=2**20 values)"] += 1
    if pre != post:
        w.violate("argument_modified", site, {"which": [i for i, (x, y) in enumerate(zip(pre, post)) if x != y]})
    if out[0] == "ok":
        res_arrays = arrays_of(out[1])
        if any_alias(res_arrays, arrays_of(args)):
            w.violate("result_aliases_argument", site, {"what": "returned storage shares memory with an argument"})
        if any_alias(res_arrays, all_model_arrays(st)):
            w.violate("result_aliases_model", site, {"what": "returned storage shares memory with a live model"})
    if comparable(rec):
        key = jkey({"spec": m["spec"], "edits": m.get("edits"), "method": method, "args": canonical_args(a),
                    "seed": rec.get("seed")})
        ok = compare_history(w, st, key, rec, out, site)
        if key not in st.oblig:
            st.oblig[key] = {"ops": [{"op": "m.new.private", "spec": m["spec"]}] +
                                    [{"op": "m.edit", "m": "_", "what": e} for e in m.get("edits", ())] +
                                    [{"op": "m.call", "m": "_", "method": method, "args": literal_args(w, st, a),
                                      "seed": rec.get("seed")}],
                             "expect": (outcome_digest(*out), plain(out[1])), "step": w.step, "site": site,
                             "cls": "result_depends_on_history", "variant": "pristine"}
        if rec.get("twin") and ok:
            twin_compare(w, st, m, rec, out, site)
    if out[0] == "ok" and rec.get("keep"):
        st.results[rec["keep"]] = {"obj": out[1], "digest": digest(out[1]), "site": site, "model": rec["m"]}
        if rec.get("as_model") and type(out[1]).__name__ == "NormalDistribution":
            d = out[1]
            spec = {"type": "nd", "mean": enc(d.mean), "cov": enc(d.covariance)}
            register_model(w, st, rec["as_model"], "nd", d, spec)
            st.results[rec["keep"]]["is_model"] = rec["as_model"]
    if rec.get("burst") and rec.get("arm") is None:
        # a long session in one step: the same call many times in a row on the same model
        first = outcome_digest(*out)
        cmp_ = comparable(rec)
        for b in range(int(rec["burst"]) - 1):
            fnb, argsb = call_method(w, st, obj, mtype, method, a, G.seed_object(w, rec.get("seed")))
            ob = w.call(fnb)
            m["ncalls"] += 1
            if cmp_ and outcome_digest(*ob) != first and not equalish(plain(out[1]), plain(ob[1])):
                w.violate("result_depends_on_history", site,
                          {"how": "repetition %d of a burst of %d identical calls" % (b + 2, rec["burst"]),
                           "first": first, "later": outcome_digest(*ob)})
                break
        w.probes["burst.calls_on_one_model"] += 1
    failed = out[0] == "exc"
    # systematic single-fault sweep: the same call once per seam call it makes, the k-th failing
    if rec.get("sweep") and rec.get("arm") is None:
        for seam in sorted(seam_calls):
            for k in sweep_positions(seam, seam_calls[seam]):
                fn2, args2 = call_method(w, st, obj, mtype, method, a, G.seed_object(w, rec.get("seed")))
                pre2 = [digest(x) for x in args2]
                out2 = w.call(fn2, arm=[seam, k, sweep_exc(seam, k, rec)])
                w.probes["sweep.fault_positions"] += 1
                if seam == "np.*":
                    w.probes["sweep.np_star"] += 1
                m["fmask"] |= 4
                if pre2 != [digest(x) for x in args2]:
                    w.violate("argument_modified", site, {"after": "injected %s failure #%d" % (seam, k)})
                check_models(w, st, site, failed=(out2[0] == "exc"))
        if seam_calls and comparable(rec):
            # ... and the call once more, undisturbed: it answers as it did before the failures
            fn3, _ = call_method(w, st, obj, mtype, method, a, G.seed_object(w, rec.get("seed")))
            out3 = w.call(fn3)
            w.probes["sweep.call_repeated_after_the_failures"] += 1
            if outcome_digest(*out3) != outcome_digest(*out) and not equalish(plain(out[1]), plain(out3[1])):
                w.violate("result_depends_on_history", site,
                          {"how": "the same call after a sweep of injected failures", "before": outcome_digest(*out),
                           "after": outcome_digest(*out3)})
    return outcome_digest(*out), out


def sweep_positions(seam, n, cap=24):
    """Which of the n calls of a seam fail in a sweep: all of them, or `cap` evenly spread ones (first and last
    included) when an operation makes more (a function of n alone: the op list stays the whole input)."""
    if n <= cap:
        return list(range(1, n + 1))
    return sorted({1 + (i * (n - 1)) // (cap - 1) for i in range(cap)})


def sweep_exc(seam, k, rec):
    if seam == "np.*":       # any numpy call: an allocation that fails, or the user's Ctrl-C
        return "MemoryError" if k % 2 else "KeyboardInterrupt"
    return rec.get("sweep_exc", "MemoryError")


def literal_args(w, st, a):
    """Replace references inside method arguments by literals (for pristine evaluation)."""
    out = {}
    for k, v in a.items():
        if is_ref(v):
            rid = v["__ref__"]
            if rid in st.models:
                mm = st.models[rid]
                out[k] = {"__model__": mm["spec"]}
            elif rid in st.bufs:
                out[k] = enc(st.bufs[rid])
            else:
                out[k] = None
        else:
            out[k] = v
    return out


def twin_compare(w, st, m, rec, out, site):
    """Oracle 3, aged-vs-twin: a twin freshly built from the private literal copy must answer alike."""
    tp = twin_params(w, m["spec"])
    t = w.call(model_ctor(w, st, m["type"], tp))
    if t[0] != "ok":
        return
    try:
        for what in m.get("edits", ()):
            apply_edit(t[1], m["type"], what)
    except Exception:
        return
    fn, _ = call_method(w, st, t[1], m["type"], rec["method"], rec.get("args", {}), G.seed_object(w, rec.get("seed")))
    out2 = w.call(fn)
    w.probes["history.aged_vs_twin"] += 1
    if outcome_digest(*out) != outcome_digest(*out2) and not equalish(plain(out[1]), plain(out2[1])):
        w.violate("result_depends_on_history", site,
                  {"how": "aged-vs-twin", "aged": outcome_digest(*out), "twin": outcome_digest(*out2),
                   "model_age_calls": m["ncalls"]})


def all_model_arrays(st):
    out = []
    for m in st.models.values():
        out.extend(arrays_of(m["obj"]))
    return out


def h_u_call(w, st, rec):
    name = rec["fn"]
    if name.startswith("plot."):
        from . import boot
        site, f = name, getattr(boot.plot_module(), name[5:])
        w.probes["display.plotting_call"] += 1
    else:
        site = ("generators." + name[4:]) if name.startswith("gen.") else "utils." + name
        mod = w.sempler.generators if name.startswith("gen.") else w.sempler.utils
        f = getattr(mod, name[4:] if name.startswith("gen.") else name)
    args = [build_arg(w, st, a) for a in rec["args"]]
    if rec.get("same_object"):
        i0, i1 = rec["same_object"]
        args[i1] = args[i0]
        w.probes["call.same_object_for_two_parameters"] += 1
    kw = {k: build_arg(w, st, v) for k, v in rec.get("kw", {}).items()}
    if "dtype" in kw and isinstance(kw["dtype"], str):
        kw["dtype"] = np.dtype(kw["dtype"])
    owned = args + list(kw.values())
    pre = [digest(x) for x in owned]
    if rec.get("bykw"):
        # the same call with every argument passed by keyword
        import inspect
        try:
            names = [n for n, prm in inspect.signature(f).parameters.items()
                     if prm.kind in (prm.POSITIONAL_OR_KEYWORD, prm.KEYWORD_ONLY)][:len(args)]
        except (TypeError, ValueError):
            names = []
        if len(names) == len(args) and not set(names) & set(kw):
            kw = dict(zip(names, args), **kw)
            args = []
            w.probes["call.by_keyword"] += 1
    out = w.call(f, *args, arm=rec.get("arm"), **kw)
    post = [digest(x) for x in owned]
    w.apis[site] += 1
    note_probes_utils(w, rec, args, out)
    if rec.get("arm") is not None and out[0] == "exc" and "injected by simulator" in str(out[1]) and not any_ref(rec) \
            and not rec.get("bykw") and not ("random_state" in rec.get("kw", {}) and rec["kw"]["random_state"] is None):
        # the FIRST attempt at this call died in a numpy call; the caller simply tries again.  What the second
        # attempt returns is compared with the history-free reference (always evaluated): whatever the failed attempt
        # left behind at module level (a memo written in a finally, a half-filled table) must not reach it.
        args_b = [build_arg(w, st, a) for a in rec["args"]]
        if rec.get("same_object"):
            args_b[rec["same_object"][1]] = args_b[rec["same_object"][0]]
        kw_b = {k: build_arg(w, st, v) for k, v in rec.get("kw", {}).items()}
        if "dtype" in kw_b and isinstance(kw_b["dtype"], str):
            kw_b["dtype"] = np.dtype(kw_b["dtype"])
        out_b = w.call(f, *args_b, **kw_b)
        w.probes["call.tried_again_after_an_attempt_that_died"] += 1
        key_b = jkey({"fn": name, "args": rec["args"], "kw": rec.get("kw", {}), "same": rec.get("same_object"),
                      "after": "failed attempt"})
        if key_b not in st.oblig and not hasattr(out_b[1], "__next__"):
            lit = {"op": "u.call", "fn": name, "args": rec["args"], "kw": rec.get("kw", {})}
            if rec.get("same_object"):
                lit["same_object"] = rec["same_object"]
            st.oblig[key_b] = {"ops": [lit], "expect": (outcome_digest(*out_b), plain(out_b[1])), "step": w.step,
                               "site": site, "cls": "result_depends_on_history", "priority": True,
                               "variant": "pristine (the call tried again right after an attempt that died in a "
                                          "numpy call)"}
    if pre != post:
        w.violate("argument_modified", site, {"which": [i for i, (x, y) in enumerate(zip(pre, post)) if x != y]})
    if out[0] == "ok" and hasattr(out[1], "__next__"):
        # a lazy result (generator, filter, map, zip): it must not read the caller's storage after the call.
        # Reference: the same call consumed at once; then the caller changes its arrays and consumes the first.
        w.probes["lazy_result"] += 1
        args2 = [build_arg(w, st, a) for a in rec["args"]]
        kw2 = {k: build_arg(w, st, v) for k, v in rec.get("kw", {}).items()}
        ref = w.call(lambda: list(f(*args2, **kw2)) if not rec.get("bykw") else list(f(**kw)))
        for arr in arrays_of(owned):
            scribble_array(arr, "fill")
        late = w.call(lambda: list(out[1]))
        if ref[0] != late[0] or (ref[0] == "ok" and digest(ref[1]) != digest(late[1])):
            w.violate("result_aliases_argument", site, {"what": "a lazily evaluated result reads the caller's storage "
                                                        "after the call returned"})
        out = late
        pre = post = []
    if out[0] == "ok":
        res_arrays = arrays_of(out[1])
        if any_alias(res_arrays, arrays_of(owned)):
            w.violate("result_aliases_argument", site, {"what": "returned storage shares memory with an argument"})
        if any_alias(res_arrays, all_model_arrays(st)):
            w.violate("result_aliases_model", site, {"what": "returned storage shares memory with a live model"})
        if any(o is out[1] for o in owned if isinstance(o, (list, dict, set))):
            w.violate("result_aliases_argument", site, {"what": "the argument object itself was returned"})
    unseeded = "random_state" in rec.get("kw", {}) and rec["kw"]["random_state"] is None
    if unseeded:
        w.probes["utils.unseeded_call"] += 1
    if rec.get("arm") is None and not unseeded:
        key = jkey({"fn": name, "args": rec["args"], "kw": rec.get("kw", {}), "same": rec.get("same_object")})
        compare_history(w, st, key, rec, out, site)
        if key not in st.oblig and not any_ref(rec):
            lit = {"op": "u.call", "fn": name, "args": rec["args"], "kw": rec.get("kw", {})}
            for flag in ("same_object", "bykw"):
                if rec.get(flag):
                    lit[flag] = rec[flag]
            st.oblig[key] = {"ops": [lit],
                             "expect": (outcome_digest(*out), plain(out[1])), "step": w.step, "site": site,
                             "cls": "result_depends_on_history", "variant": "pristine"}
    if out[0] == "ok" and rec.get("keep"):
        st.results[rec["keep"]] = {"obj": out[1], "digest": digest(out[1]), "site": site, "model": None}
    if rec.get("sweep") and rec.get("arm") is None:
        seam_calls = dict(w.last_seam_calls)
        for seam in sorted(seam_calls):
            for k in sweep_positions(seam, seam_calls[seam]):
                args2 = [build_arg(w, st, a) for a in rec["args"]]
                kw2 = {kk: build_arg(w, st, v) for kk, v in rec.get("kw", {}).items()}
                if "dtype" in kw2 and isinstance(kw2["dtype"], str):
                    kw2["dtype"] = np.dtype(kw2["dtype"])
                pre2 = [digest(x) for x in args2]
                out2 = w.call(f, *args2, arm=[seam, k, sweep_exc(seam, k, {})], **kw2)
                w.probes["sweep.fault_positions"] += 1
                w.probes["sweep.utils"] += 1
                if seam == "np.*":
                    w.probes["sweep.np_star"] += 1
                if pre2 != [digest(x) for x in args2]:
                    w.violate("argument_modified", site, {"after": "injected %s failure #%d" % (seam, k)})
                check_models(w, st, site, failed=(out2[0] == "exc"))
        if seam_calls and not unseeded and not hasattr(out[1], "__next__") and not (
                name.startswith("gen.") and "random_state" not in rec.get("kw", {})):
            # ... and the call once more, undisturbed: it answers as it did before the failures
            args3 = [build_arg(w, st, a) for a in rec["args"]]
            kw3 = {kk: build_arg(w, st, v) for kk, v in rec.get("kw", {}).items()}
            if "dtype" in kw3 and isinstance(kw3["dtype"], str):
                kw3["dtype"] = np.dtype(kw3["dtype"])
            if rec.get("same_object"):
                args3[rec["same_object"][1]] = args3[rec["same_object"][0]]
            out3 = w.call(f, *args3, **kw3)
            w.probes["sweep.call_repeated_after_the_failures"] += 1
            if outcome_digest(*out3) != outcome_digest(*out) and not equalish(plain(out[1]), plain(out3[1])):
                w.violate("result_depends_on_history", site,
                          {"how": "the same call after a sweep of injected failures", "before": outcome_digest(*out),
                           "after": outcome_digest(*out3)})
    return outcome_digest(*out), out


def any_ref(j):
    if is_ref(j):
        return True
    if isinstance(j, dict):
        return any(any_ref(v) for v in j.values())
    if isinstance(j, list):
        return any(any_ref(v) for v in j)
    return False


def scribble_array(a, how):
    if not isinstance(a, np.ndarray) or a.size == 0 or not a.flags.writeable:
        return False
    if a.dtype == bool:
        a[...] = ~a
    elif how == "zero":
        a[...] = 0 if a.any() else 1
    elif how == "neg":
        a[...] = -a - 1
    elif how == "fill":
        a[...] = 7
    else:
        a += 1
    return True


def scribble_list(L, how):
    """In-place modification of the numbers in a (nested) list; tuples are walked (their mutable elements changed),
    empty inner lists get an element when how == 'fill'."""
    done = False
    for i, e in enumerate(L):
        if isinstance(e, (list, tuple)):
            done = scribble_list(e, how) or done
            if isinstance(e, list) and how == "fill" and not any(isinstance(x, (list, tuple, np.ndarray)) for x in e):
                e.append(0)
                done = True
        elif isinstance(e, (int, float)) and not isinstance(e, bool) and isinstance(L, list):
            L[i] = e + 1 if how != "zero" else (0 if e else 1)
            done = True
        elif isinstance(e, set) and how == "fill":
            e.add(-1)
            done = True
    return done


def h_scribble(w, st, rec):
    tgt, how = rec["target"], rec.get("how", "add")
    done = False
    if tgt in st.results:
        r = st.results[tgt]
        if r.get("is_model"):
            # the caller is about to change an object it was handed: stop tracking it as a model
            st.models.pop(r["is_model"], None)
        for a in arrays_of(r["obj"]):
            done = scribble_array(a, how) or done
        if isinstance(r["obj"], (list, tuple)):
            done = scribble_list(r["obj"], how) or done
            if isinstance(r["obj"], list) and r["obj"] and how == "fill" and not isinstance(r["obj"][0], np.ndarray):
                r["obj"].append(0)
                done = True
        if isinstance(r["obj"], set) and how == "fill":
            r["obj"].add(-1)
            done = True
        if isinstance(r["obj"], dict) and how == "fill":
            r["obj"][("x", "y")] = 0
            done = True
        r["digest"] = digest(r["obj"])
        if done:
            w.faults["caller.scribble_output"] += 1
            w.probes["scribble.out:" + r["site"]] += 1
            for mid, mm in st.models.items():
                if tgt in mm["bufs"]:
                    mm["fmask"] |= 1
                    w.probes["scribble.in:generator_output_used_by_model"] += 1
            if r.get("model") in st.models:
                st.models[r["model"]]["fmask"] |= 2
    elif tgt in st.bufs:
        b = st.bufs[tgt]
        if tgt.endswith(".assign") or tgt.endswith(".noise"):
            k = rec.get("k", 0) % max(1, len(b))
            if b:
                e = b[k]
                if how == "param" and isinstance(e, ParamCallable):
                    e.coefs += 1.0
                    e.b += 1.0
                    done = True
                    w.probes["scribble.in:ParamCallable"] += 1
                elif how == "param" and isinstance(getattr(e, "keywords", None), dict) and "coefs" in e.keywords:
                    e.keywords["coefs"] += 1.0          # the array bound by a functools.partial
                    done = True
                    w.probes["scribble.in:partial_bound_array"] += 1
                elif how == "param" and hasattr(getattr(e, "__self__", None), "coefs"):
                    e.__self__.coefs += 1.0          # the object behind a bound method
                    e.__self__.b += 1.0
                    done = True
                    w.probes["scribble.in:bound_method_owner"] += 1
                elif how == "param" and isinstance(e, ParamNoise):
                    e.params += 1.0
                    done = True
                    w.probes["scribble.in:ParamNoise"] += 1
                elif how == "param" and hasattr(e, "dist") and hasattr(e.dist, "mean"):
                    e.dist.mean += 1.0             # the caller changes the distribution its callable holds
                    e.dist.covariance *= 2.0
                    done = True
                    w.probes["scribble.in:model_object_held_by_a_callable"] += 1
                else:
                    b[k] = w.fn(["lin", [9.0], 9.0]) if tgt.endswith(".assign") else w.fn(["noise.uniform", 5, 6])
                    done = True
                    w.probes["scribble.in:" + tgt.split(".")[1] + "_list"] += 1
        elif type(b).__module__.startswith("pandas"):
            # the caller works on its frame in place (through the array the frame was built on)
            done = scribble_array(st.bufs.get(tgt + ".base"), how) if (tgt + ".base") in st.bufs else False
        elif isinstance(b, np.ndarray):
            if not b.flags.writeable and (tgt + ".base") in st.bufs:
                done = scribble_array(st.bufs[tgt + ".base"], how)      # the storage behind a read-only view
            else:
                done = scribble_array(b, how)
        elif isinstance(b, list):
            done = scribble_list(b, how)
        if done:
            w.faults["caller.scribble_input"] += 1
            for mid, m in st.models.items():
                if tgt in m["bufs"] or tgt.startswith(mid + "."):
                    m["fmask"] |= 1
                    w.probes["scribble.in:" + CLS[m["type"]]] += 1
    else:
        raise Skip()
    return "ok:-", None


def h_m_new_private(w, st, rec):
    """Only used by pristine evaluation: build the model from the private literal copy."""
    spec = rec["spec"]
    tp = twin_params(w, spec)
    out = w.call(model_ctor(w, st, spec["type"], tp))
    if out[0] == "ok":
        register_model(w, st, "_", spec["type"], out[1], spec)
    return outcome_digest(*out), out


def h_m_drop(w, st, rec):
    """The caller forgets a model: every reference the world holds is released and the
    collector runs, so that a later object can reuse its address (id)."""
    import gc
    m = st.models.pop(rec["m"], None)
    if m is None:
        raise Skip()
    st.dropped_ids.add(id(m["obj"]))
    for rid in [r for r, v in st.results.items() if v.get("is_model") == rec["m"] or v["obj"] is m["obj"]]:
        del st.results[rid]
    for k in (rec["m"] + ".assign", rec["m"] + ".noise"):
        st.bufs.pop(k, None)
    del m
    gc.collect()
    w.faults["gc"] += 1
    w.probes["gc.model_dropped"] += 1
    return "ok:-", None


def apply_edit(obj, mtype, what):
    """The caller's in-place edit of a public attribute of its own model."""
    if mtype == "lganm":
        if what == "W":
            obj.W[obj.W != 0] *= 1.5
        elif what == "variances":
            obj.variances *= 2
        else:
            obj.means += 1
    else:
        if what == "cov":
            obj.covariance *= 2
        else:
            obj.mean += 1


def h_m_edit(w, st, rec):
    """The caller edits a public attribute of ITS model in place (the library's own tests re-assign
    `joint.mean`).  What must still hold is the clause "results do not depend on earlier calls": the edited
    model is compared with a twin that is built from the same literal copy, receives the same edits and was
    never called before them.  (A cache filled at construction goes equally stale in both and is not
    flagged; a cache filled by an earlier call is.)"""
    m = st.models.get(rec["m"])
    if m is None or m["type"] not in ("lganm", "nd"):
        raise Skip()
    obj = m["obj"]
    what = rec.get("what", "means")
    try:
        apply_edit(obj, m["type"], what)
    except Exception:
        raise Skip()
    m["edits"] = list(m.get("edits", ())) + [what]
    m["snap"] = snapshot(obj)
    m["law"] = obs_law(w, obj, m["type"])
    for r in st.results.values():
        if r["obj"] is obj:
            r["digest"] = digest(obj)     # the caller changed an object it was handed: its own doing
    w.probes["caller.edits_model_attribute"] += 1
    return "ok:-", None


def h_np_seterr(w, st, rec):
    """The caller runs its program under a non-default numpy floating-point error state (process-global, like
    the global generator).  Library calls are executed under it and must leave it as they found it."""
    old = np.seterr(**rec["state"])
    full = dict(np.geterr())              # the four settings spelled out
    np.seterr(**old)
    w.caller_err = full
    st.errstate = dict(rec["state"])
    w.probes["caller.non_default_errstate"] += 1
    return "ok:-", None


HANDLERS = {"np.seterr": h_np_seterr, "m.edit": h_m_edit, "m.drop": h_m_drop, "buf.new": h_buf_new, "m.new": h_m_new, "m.call": h_m_call, "u.call": h_u_call,
            "fault.scribble": h_scribble, "m.new.private": h_m_new_private}


# -- per-step oracles -----------------------------------------------------------

def check_models(w, st, site, failed=False, after_scribble=False):
    """Oracles 1 and 2 for every live model."""
    for mid in list(st.models):
        m = st.models[mid]
        obj = m["obj"]
        s = CLS[m["type"]] + ".__init__" if after_scribble else site
        cur = snapshot(obj)
        changed = [k for k in m["snap"] if k in cur and cur[k] != m["snap"][k]]
        deleted = [k for k in m["snap"] if k not in cur]
        if deleted:
            w.violate("attr_deleted", s, {"model": mid, "attrs": deleted})
        if changed:
            w.violate("model_changed_after_failed_call" if failed else "attr_changed", s,
                      {"model": mid, "type": m["type"], "attrs": changed, "model_age_calls": m["ncalls"]})
        if m["law"] is not None:
            law = obs_law(w, obj, m["type"])
            w.probes["obs_law.checked"] += 1
            w.probes["obs_law.checked:" + m["type"]] += 1
            if not equalish(law, m["law"]):
                if not changed:
                    w.violate("model_changed_after_failed_call" if failed else "obs_law_changed", s,
                              {"model": mid, "model_age_calls": m["ncalls"]})
                m["law"] = law
        if changed or deleted:
            m["snap"] = cur


def check_results(w, st, site):
    """Oracle 5c: results already handed out stay put."""
    ids = list(st.results)[-WINDOW:]
    for rid in ids:
        r = st.results[rid]
        d = digest(r["obj"])
        if d != r["digest"]:
            w.violate("earlier_result_changed", site, {"result": rid, "returned_by": r["site"]})
            r["digest"] = d
    while len(st.results) > 3 * WINDOW:
        k = next(iter(st.results))
        if st.results[k].get("is_model") in st.models:
            st.results[k] = st.results.pop(k)      # keep alive, move to the end
            break
        del st.results[k]


# -- probes -----------------------------------------------------------------------

def note_probes_call(w, m, rec, out):
    a = rec.get("args", {})
    mtype, method = m["type"], rec["method"]
    if method == "sample" and mtype in ("lganm", "anm"):
        targets = {}
        for kind in ("do", "shift", "noise"):
            v = a.get(kind)
            if isinstance(v, list) and v:
                for t, val in v:
                    targets.setdefault(t, set()).add(kind)
                    if mtype == "lganm" and not isinstance(val, list):
                        w.probes["iv.scalar_value"] += 1
                W = getattr(m["obj"], "W", getattr(m["obj"], "A", None))
                try:
                    if any((W[:, t] != 0).any() for t, _ in v if 0 <= t < len(W)):
                        w.probes["iv.%s.non_source" % kind] += 1
                except Exception:
                    pass
        if any(len(k) > 1 for k in targets.values()):
            w.probes["iv.two_kinds_same_target"] += 1
        if not targets and all(a.get(k, "omit") == "omit" for k in ("do", "shift", "noise")) and m["iv"]:
            w.probes["default_args_after_intervened_call"] += 1
    if m.get("last_failed"):
        w.probes["op_after_failed_op_same_model"] += 1
    m["last_failed"] = out[0] == "exc"
    if out[0] == "exc":
        name = type(out[1]).__name__
        if name == "LinAlgError" and rec.get("arm") is None:
            w.probes["natural_LinAlgError"] += 1
        if name == "InjectedCallableError" or (name == "KeyboardInterrupt"):
            w.faults["callable.raise"] += 1
            m["fmask"] |= 8
        if rec.get("invalid"):
            w.faults["call.invalid"] += 1
            m["fmask"] |= 16
        if rec.get("arm") is not None:
            m["fmask"] |= 4


def note_probes_utils(w, rec, args, out):
    name = rec["fn"]
    if rec.get("noext"):
        w.probes["pdag.without_consistent_extension(nodes removed first)"] += 1
    if out[0] != "ok":
        if rec.get("invalid"):
            w.faults["call.invalid"] += 1
        return
    try:
        if name == "maximally_orient" and (np.asarray(out[1]) != np.asarray(args[0])).any():
            w.probes["meek_rule_fired"] += 1
        if name == "all_dags":
            P = np.asarray(args[0])
            if np.logical_and(P != 0, P.T != 0).any():
                w.probes["all_dags.undirected_edge"] += 1
        if name == "topological_ordering" and (np.asarray(args[0]) != 0).any():
            w.probes["topological_ordering.with_edges"] += 1
        if name == "split_data" and all(len(d) >= 2 for d in args[0]):
            w.probes["split_data.n>=2"] += 1
    except Exception:
        pass


# -- main loop ----------------------------------------------------------------------

def op_site(st, rec):
    op = rec["op"]
    if op == "m.new":
        return CLS[rec["type"]] + ".__init__"
    if op == "m.call":
        m = st.models.get(rec["m"])
        return method_site(m["type"], rec["method"]) if m else "?"
    if op == "u.call":
        if rec["fn"].startswith("plot."):
            return rec["fn"]
        return ("generators." + rec["fn"][4:]) if rec["fn"].startswith("gen.") else "utils." + rec["fn"]
    return op


def execute(sempler, run_seed, ops, pristine_budget=4):
    from .world import interpreter_state
    w = World(sempler, run_seed, PROP)
    st = State()
    w.st = st
    gstate = interpreter_state()
    for i, rec in enumerate(ops):
        w.step = i
        w.client = rec.get("c", 0)
        op = rec["op"]
        try:
            if op in HANDLERS:
                site = op_site(st, rec)
                od, out = HANDLERS[op](w, st, rec)
            elif op in SHARED_OPS:
                site = op
                od, out = SHARED_OPS[op](w, rec), None
            else:
                raise ValueError("unknown op %r" % op)
        except Skip:
            continue
        w.record(rec, od)
        failed = out is not None and out[0] == "exc"
        ns = interpreter_state()
        if ns != gstate:
            if op in HANDLERS and op not in ("np.seterr",):
                w.err_changed.append({"process_global_state": sorted(k for k in ns if ns[k] != gstate[k])})
            gstate = ns
        if w.err_changed:
            w.violate("result_depends_on_history", site,
                      {"how": "the call left process-global state of the caller changed (numpy error state, print "
                              "options, recursion limit, stdlib random state, environment, cwd); what later operations "
                              "return or raise now depends on this call", "changed": w.err_changed[0]})
            w.err_changed = []
        check_models(w, st, site, failed=failed, after_scribble=(op == "fault.scribble"))
        check_results(w, st, site)
        if op in ("m.call", "m.new") and rec.get("m", rec.get("id")) in st.models:
            m = st.models[rec.get("m", rec.get("id"))]
            nb = m["ncalls"]
            bucket = "0" if nb == 0 else "1-3" if nb <= 3 else "4-9" if nb <= 9 else "10+"
            oc = "ok" if not failed else "exc:" + type(out[1]).__name__
            nontrivial = bool(m["fmask"] or m["iv"])
            st.distinct.add((m["type"], rec.get("method", "new"), oc, m["fmask"], bucket, m["iv"], nontrivial))
        elif op == "u.call":
            oc = "ok" if not failed else "exc:" + type(out[1]).__name__
            st.distinct.add(("utils", rec["fn"], oc, 0, "-", False, len(st.models) > 0 and w.step > 3))
    w.distinct = st.distinct
    keys = sorted(st.oblig, key=lambda k: st.oblig[k]["step"])
    first_class = [k for k in keys if st.oblig[k].get("priority")][:2]      # (always evaluated, at most two per run)
    keys = [k for k in keys if k not in first_class]
    if pristine_budget is not None and len(keys) > pristine_budget:
        keys = w.streams["pristine"].sample(keys, pristine_budget)
    keys = first_class + keys
    obl = [st.oblig[k] for k in keys]
    po = [r for r in ops if r.get("op") == "np.printoptions"][:1]
    if po:
        # the reference world prints like the caller's world (str() of a distribution is one of the operations)
        obl = [dict(o, ops=po + o["ops"]) for o in obl]
    if st.errstate:
        # the reference world runs under the same error state of the caller
        # ... and, for the same operations, also under numpy's default error state: where both worlds return a
        # value it is the same value (an error state decides whether a floating-point incident raises, never which
        # numbers come back)
        obl = [dict(o, ops=[{"op": "np.seterr", "state": st.errstate}] + o["ops"]) for o in obl] + \
              [dict(o, variant="pristine under the default error state", both_ok_only=True) for o in obl]
    return w, obl


def pristine_eval(sempler, ops):
    w = World(sempler, 0, PROP, reference=True)
    st = State()
    w.st = st
    res = None
    for i, rec in enumerate(ops):
        w.step = i
        rec = resolve_models(w, st, rec)
        try:
            if rec["op"] in SHARED_OPS and rec["op"] not in HANDLERS:
                SHARED_OPS[rec["op"]](w, rec)
                continue
            od, out = HANDLERS[rec["op"]](w, st, rec)
        except Skip:
            return ("skip", None)      # the reference model could not be rebuilt from the literal copy: no verdict
        res = (od, plain(out[1]) if out is not None else None)
    return res


def resolve_models(w, st, rec):
    """Literalised model arguments ({'__model__': spec}) are rebuilt in the pristine child."""
    a = rec.get("args")
    if not isinstance(a, dict):
        return rec
    new = dict(a)
    for k, v in a.items():
        if isinstance(v, dict) and "__model__" in v:
            tp = twin_params(w, v["__model__"])
            o = w.call(model_ctor(w, st, v["__model__"]["type"], tp))
            st.bufs["_arg_" + k] = o[1]
            new[k] = {"__ref__": "_arg_" + k}
    return dict(rec, args=new)


def pristine_equal(got, expect):
    if got[0] == "skip":
        return True
    return got[0] == expect[0] or equalish(got[1], expect[1])


# ===========================================================================
# generation
# ===========================================================================

DTYPES = ["<f8", "<f8", "<f8", "<f8", "<f8", "<i8", "<f4", "|b1", "<f2", "|i1", "<u2"]


def gen_config(g):
    all_faults = ["caller.scribble_input", "caller.scribble_output", "call.invalid", "callable.raise",
                  "seam.raise", "rng", "gc"]
    if g.random() < 0.25:
        faults = []
    else:
        faults = [f for f in all_faults if g.random() < 0.7]
    weights = {"m.new": g.choice([1, 2]), "m.call": g.choice([4, 6, 8]), "u.call": g.choice([0, 2, 4, 8]),
               "repeat": g.choice([1, 2, 3]), "variant": g.choice([0, 1, 2, 3]),
               "fault": g.choice([1, 2, 3]) if faults else 0}
    return {"clients": g.randint(1, 4), "length": g.randint(8, 60),
            "pmax": g.randint(1, 7) if g.random() < 0.9 else g.choice([8, 9, 12, 12, 33, 51, 65, 129]),
            "nmax": 15 if g.random() < 0.93 else g.choice([120, 1100]),
            "faults": faults, "weights": weights, "max_models": g.randint(2, 5),
            "seeds": G.seed_alphabet(g),
            "sweep_rate": g.choice([0, 0, 0.1, 0.4]), "bursts": g.random() < 0.06, "edits": g.random() < 0.2, "twin_rate": g.choice([0.1, 0.3, 0.6]),
            "fault_rate": g.choice([0.05, 0.1, 0.2]), "types": g.choice([["lganm", "nd", "anm"], ["lganm"], ["nd"], ["anm"],
                                                                        ["lganm", "nd"], ["lganm", "anm"]])}


class GS:
    def __init__(self):
        self.nbuf = self.nmod = self.nres = 0
        self.models = {}      # id -> dict(type, p, bufs, W(np array or None), derived)
        self.results = []     # list of (id, model id or None)
        self.repeatable = []  # records worth re-issuing
        self.agenda = []      # records to be emitted later (obligations)
        self.graph_bufs = []  # (buffer or result id, p) usable as W / A of another model


def new_buf(g, gs, ops, c, value, allow_list=True):
    gs.nbuf += 1
    bid = "a%d" % gs.nbuf
    r = g.random()
    as_ = "list" if allow_list and r < 0.2 else ("view" if r > 0.88 else "roview" if r > 0.8 else "nd")
    ops.append({"c": c, "op": "buf.new", "id": bid, "value": enc(value), "as": as_})
    return bid, as_


def cast(arr, dt, g):
    a = arr.astype(np.dtype(dt))
    if a.ndim == 2 and g.random() < 0.15:
        a = np.asfortranarray(a)
    return a


def gen_model(g, gs, cfg, ops, c, invalid=False):
    mtype = g.choice(cfg["types"])
    p = g.randint(1, cfg["pmax"]) if cfg["pmax"] <= 12 else cfg["pmax"]
    if gs.graph_bufs and mtype in ("lganm", "anm") and not invalid and g.random() < 0.35:
        p = g.choice(gs.graph_bufs)[1]      # so that an existing caller array / generator output can be reused
    gs.nmod += 1
    mid = "m%d" % gs.nmod
    rec = {"c": c, "op": "m.new", "id": mid, "type": mtype}
    bufs = []

    def arg(value, allow_list=True, must_nd=False, role=None):
        # caller-owned buffer (shared, scribble-able later) or inline literal
        if role == "graph" and not invalid and 2 <= p <= 8 and g.random() < 0.1:
            # the graph comes straight from one of the library's generators
            gs.nres += 1
            rid = "r%d" % gs.nres
            fn = g.choice(["gen.dag_avg_deg", "gen.dag_full"])
            a = [p, 1.5, 0.5, 1.5] if fn == "gen.dag_avg_deg" else [p, 0.5, 1.5]
            ops.append({"c": c, "op": "u.call", "fn": fn, "args": a, "kw": {"random_state": g.choice([0, 1, 42])},
                        "keep": rid})
            bufs.append(rid)
            gs.graph_bufs.append((rid, p))
            return {"__ref__": rid}
        if role == "graph" and not invalid:
            same = [(b, sh) for b, sh in gs.graph_bufs if sh == p]
            if same and g.random() < 0.25:
                # the same caller array (or an earlier result of a generator) serves a second model
                bid = g.choice(same)[0]
                bufs.append(bid)
                return {"__ref__": bid}
        if g.random() < 0.75:
            bid, as_ = new_buf(g, gs, ops, c, value, allow_list and not must_nd)
            bufs.append(bid)
            if role == "graph" and as_ != "list" and not invalid:
                gs.graph_bufs.append((bid, p))
            return {"__ref__": bid}
        return enc(value)
    W = None
    if mtype == "lganm":
        dt = g.choice(DTYPES)
        W = G.rand_dag(g, p, density=(None if p <= 12 else 3.0 / p))
        if invalid:
            W = U.cyclic(g, p).astype(float)
        rec["W"] = arg(cast(W, dt, g), role="graph")
        if g.random() < 0.3:
            lo = G.r2(g, -1, 1)
            rec["means"] = enc((lo, round(lo + G.r2(g, 0, 2), 2)))
        else:
            mv = G.rand_vec(g, p, -2, 2)
            if g.random() < 0.03:
                mv[g.randrange(p)] = g.choice([float("inf"), float("nan"), -float("inf")])      # non-finite parameters
            if g.random() < 0.08:
                mv = np.array([g.randint(-2, 2) for _ in range(p)], dtype=np.int64)        # integer-typed parameters
            rec["means"] = arg(cast(mv, g.choice(["<f8", "<f8", "<f4"]) if mv.dtype.kind == "f" else "<i8", g), must_nd=True)
            if g.random() < 0.06 and is_ref(rec["means"]) and ops[-1].get("op") == "buf.new" and ops[-1].get("as") == "nd":
                ops[-1]["as"] = "col"
        if g.random() < 0.3:
            lo = G.r2(g, 0.2, 1)
            rec["variances"] = enc((lo, round(lo + G.r2(g, 0, 2), 2)))
        elif is_ref(rec["means"]) and g.random() < 0.05 and ops[-1].get("op") == "buf.new" and \
                ops[-1].get("as") == "nd" and all(x > 0 for x in ops[-1]["value"]["__nd__"].get("data", [0])):
            rec["variances"] = dict(rec["means"])      # one caller array serves as means and as variances
        else:
            rec["variances"] = arg(cast(G.rand_vec(g, p, 0.2, 2), g.choice(["<f8", "<f8", "<f4"]), g), must_nd=True)
        rec["seed"] = g.choice(cfg["seeds"] + [None])
    elif mtype == "nd":
        mean = G.rand_vec(g, p, -2, 2)
        cov = G.rand_cov(g, p, singular=g.random() < 0.25)
        if p >= 2 and g.random() < 0.08:
            cov = cov.copy()                 # materially non-symmetric: the constructor accepts it
            cov[0, 1] += G.r2(g, 0.3, 1.0)
        elif p >= 2 and g.random() < 0.05:
            cov = cov.copy()                 # symmetric, not positive semi-definite
            cov[0, 1] = cov[1, 0] = 2.0 * max(cov[0, 0], cov[1, 1]) + 1.0
        if invalid:
            mean = G.rand_vec(g, p + 1, -2, 2)
        if p == 1 and not invalid and g.random() < 0.5:
            # a univariate distribution given by lower-rank arrays
            bm, _ = new_buf(g, gs, ops, c, mean, False)
            ops[-1]["as"] = "0d"
            bc, _ = new_buf(g, gs, ops, c, cov, False)
            ops[-1]["as"] = g.choice(["0d", "1d"])
            bufs.extend([bm, bc])
            rec["mean"], rec["cov"] = {"__ref__": bm}, {"__ref__": bc}
        else:
            rec["mean"] = arg(mean)
            rec["cov"] = arg(cov)
            if g.random() < 0.08:
                for key in ("mean", "cov"):         # pandas objects (np.atleast_*d converts them without copying)
                    if is_ref(rec[key]):
                        for o in ops:
                            if o.get("op") == "buf.new" and o.get("id") == rec[key]["__ref__"] and o.get("as") == "nd":
                                o["as"] = "pandas"
        if g.random() < 0.2:
            rec["check_valid"] = g.choice(["raise", "warn"])
            if "seam.raise" in cfg["faults"] and g.random() < 0.3:
                rec["arm"] = ["np.linalg.cholesky", 1, "MemoryError"]
    else:
        A = G.rand_dag(g, p, weighted=g.random() < 0.3, density=(None if p <= 12 else 3.0 / p))
        if invalid:
            A = U.cyclic(g, p).astype(float)
        W = A
        rec["A"] = arg(cast(A, g.choice(["<f8", "<f8", "<i8", "<i8", "|b1"]), g), must_nd=True, role="graph")
        rec["assign"] = [G.rand_assign_spec(g, allow_param=True) for _ in range(p)]
        rec["noise"] = [G.rand_noise_spec(g) if g.random() < 0.7 else
                        (["paramnoise", G.r2(g, -1, 1), G.r2(g, 0.2, 1.5)] if g.random() < 0.5 else
                         ["replay", [G.r2(g, -2, 2) for _ in range(g.randint(3, 7))]] if g.random() < 0.5 else
                         ["ndnoise", G.r2(g, -1, 1), G.r2(g, 0.2, 1.5)])
                        for _ in range(p)]
    if invalid:
        rec["invalid"] = True
    if mtype in ("lganm", "anm") and g.random() < 0.1:
        rec["bykw"] = True
    if not invalid and g.random() < 0.1:
        rec["born"] = g.choice(["deepcopy", "pickle"])
    ops.append(rec)
    if not invalid:
        gs.models[mid] = {"type": mtype, "p": len(W) if W is not None else p, "bufs": bufs, "derived": False}
        # obligation: scribble on the constructor's inputs later, then query the model
        if "caller.scribble_input" in cfg["faults"]:
            for b in bufs:
                if g.random() < 0.7:
                    gs.agenda.append({"op": "fault.scribble", "target": b, "how": g.choice(["add", "zero", "neg", "fill"])})
            if mtype == "anm" and g.random() < 0.8:
                gs.agenda.append({"op": "fault.scribble", "target": mid + g.choice([".assign", ".noise"]),
                                  "how": g.choice(["param", "param", "setitem"]), "k": g.randrange(64)})
    return mid


def idx_arg(g, values, p=None):
    """Index argument as list, ndarray or (single value) int — never a slice.  With p given, some
    indices are occasionally written the numpy way, counted from the end (i - p)."""
    if p is not None and g.random() < 0.12:
        values = [v - p if g.random() < 0.6 else v for v in values]
    if len(values) == 1 and g.random() < 0.3:
        return values[0]
    r = g.random()
    if r < 0.4:
        return enc(np.array(values, dtype=int))
    if r < 0.5:
        return enc(tuple(values))
    if r < 0.6 and p is not None and list(values) == list(range(len(values))):
        return enc(range(len(values)))
    return list(values)


def gen_m_call(g, gs, cfg, mid, force_method=None):
    m = gs.models[mid]
    mtype, p = m["type"], m["p"]
    rec = {"op": "m.call", "m": mid}
    seeds = cfg["seeds"]
    invalid = "call.invalid" in cfg["faults"] and g.random() < cfg["fault_rate"]
    if mtype == "lganm":
        rec["method"] = "sample"
        pop = g.random() < 0.5
        a = {"do": G.lganm_ivs(g, p), "shift": G.lganm_ivs(g, p), "noise": G.lganm_ivs(g, p)}
        if g.random() < 0.15:
            a["npkeys"] = True
        if g.random() < 0.08:
            a["defaultdict"] = True
        if g.random() < 0.06:
            k1, k2 = g.sample(["do", "shift", "noise"], 2)
            if isinstance(a[k1], list) and a[k1]:
                a[k2] = copy.deepcopy(a[k1])
                a["same_dict"] = [k1, k2]
        if pop:
            a["population"] = True
            if g.random() < 0.5:
                a["n"] = g.randint(1, 10)
        else:
            if g.random() < 0.95:
                a["n"] = g.randint(1, cfg["nmax"]) if g.random() < 0.98 else 0      # else: the default sample size
            rec["seed"] = g.choice(seeds + [None])
        if invalid:
            kind = g.choice(["do", "shift", "noise"])
            a[kind] = g.choice([[[p + g.randint(0, 2), [0.5, 1.0]]], [[g.randrange(p), [1.0, 2.0, 3.0]]],
                                [[g.randrange(p), "x"]]])
            rec["invalid"] = True
        rec["args"] = a
    elif mtype == "anm":
        rec["method"] = "sample"
        a = {"n": g.randint(1, cfg["nmax"]), "do": G.anm_ivs(g, p), "shift": G.anm_ivs(g, p), "noise": G.anm_ivs(g, p)}
        if g.random() < 0.15:
            for k in ("do", "shift", "noise"):
                if isinstance(a[k], list) and a[k] and g.random() < 0.5:
                    a[k][0][1] = ["paramnoise", G.r2(g, -1, 1), G.r2(g, 0.2, 1.5)]
        if g.random() < 0.08:
            a["defaultdict"] = True
        rec["seed"] = g.choice(seeds + [None])
        if "callable.raise" in cfg["faults"] and g.random() < cfg["fault_rate"]:
            kind = g.choice(["do", "shift", "noise"])
            a[kind] = [[g.randrange(p), ["failing", g.randint(1, 2), G.rand_noise_spec(g),
                                         g.choice(["RuntimeError", "RuntimeError", "KeyboardInterrupt"])]]]
            rec["fault"] = "callable.raise"
        if invalid:
            a["do"] = g.choice([None, [[p + 1, ["noise.normal", 0, 1]]]])
            rec["invalid"] = True
        rec["args"] = a
    else:
        method = force_method or g.choice(["sample", "marginal", "conditional", "conditional", "regress", "mse",
                                           "equal", "str"])
        rec["method"] = method
        nodes = list(range(p))
        if method == "sample":
            rec["args"] = {"n": g.randint(1, cfg["nmax"])}
            rec["seed"] = g.choice(seeds + [None])
        elif method == "marginal":
            k = g.randint(1, p)
            X = [g.randrange(p) for _ in range(k)] if g.random() < 0.2 else g.sample(nodes, k)
            if invalid:
                X = [p + 1]
                rec["invalid"] = True
            rec["args"] = {"X": idx_arg(g, X, None if invalid else p)}
        elif method == "conditional":
            g.shuffle(nodes)
            ky = g.randint(1, max(1, p - 1))
            full = g.random() < 0.3           # one variable given all the others: the largest block to invert
            if full:
                ky = 1
            Y = nodes[:ky]
            rest = nodes[ky:]
            kx = g.randint(0, len(rest)) if not full else len(rest)
            X = rest[:kx]
            x = [G.r2(g, -2, 2) for _ in X]
            if invalid and p >= 1:
                r = g.random()
                if r < 0.5:
                    X = X + [Y[0]]
                    x = x + [0.5]
                else:
                    x = x + [1.0]
                rec["invalid"] = True
            rec["args"] = {"Y": idx_arg(g, Y, None if invalid else p), "X": idx_arg(g, X, None if invalid else p) if X else [],
                           "x": (enc(np.array(x, dtype=float)) if g.random() < 0.5 else x) if x else []}
            if x and g.random() < 0.08:
                # the conditioning values as a row or column vector (a 2-d array)
                rec["args"]["x"] = enc(np.array(x, dtype=float).reshape((-1, 1) if g.random() < 0.5 else (1, -1)))
        elif method in ("regress", "mse"):
            y = g.randrange(p)
            if p >= 2 and g.random() < 0.12:
                y = g.choice([-1, -2])            # the response counted from the end
            k = g.randint(0, p)
            Xs = g.sample(nodes, k)
            rec["args"] = {"y": y, "Xs": idx_arg(g, Xs, p) if Xs else []}
        elif method == "equal":
            others = [o for o, mm in gs.models.items() if mm["type"] == "nd" and mm["p"] == p]
            if invalid or not others:
                rec["args"] = {"dist": g.choice([1, None, "x"])}
                rec["invalid"] = True
            else:
                rec["args"] = {"dist": {"__ref__": g.choice(others)}}
                if g.random() < 0.3:
                    rec["args"]["atol"] = 0.5
        else:
            rec["args"] = {}
    if mtype == "nd" and rec["method"] in ("marginal", "conditional", "regress", "mse") and g.random() < 0.1:
        rec["args"]["bykw"] = True
    # faults inside the operation
    if "seam.raise" in cfg["faults"] and g.random() < cfg["fault_rate"] and not rec.get("invalid"):
        seam = {"sample": g.choice(["np.linalg.inv", "np.random.multivariate_normal"]) if mtype == "lganm"
                else "np.random.multivariate_normal", "conditional": "np.linalg.inv", "regress": "np.linalg.solve",
                "mse": "np.linalg.solve"}.get(rec["method"])
        if seam and not (mtype == "anm"):
            rec["arm"] = [seam, g.randint(1, 2), g.choice(["MemoryError", "LinAlgError"])]
    elif g.random() < cfg["sweep_rate"] and mtype != "anm":
        rec["sweep"] = True
        rec["sweep_exc"] = g.choice(["MemoryError", "LinAlgError"])
    if g.random() < cfg["twin_rate"]:
        rec["twin"] = True
    return rec


def generate(run_seed, deep=False):
    st = Streams(run_seed)
    g, sc = st["gen"], st["sched"]
    cfg = gen_config(g)
    cfg["deep"] = bool(deep) and st["deep"].random() < 0.5
    if cfg["deep"]:      # thorough tier: long histories on more models
        cfg["length"] = st["deep"].randint(60, 160)
        cfg["max_models"] = st["deep"].randint(3, 8)
    gs = GS()
    ops = []
    if g.random() < 0.12:
        ops.append({"c": 0, "op": "np.seterr", "state": g.choice([{"invalid": "raise", "over": "raise"}, {"all": "ignore"},
                                                                {"divide": "raise", "invalid": "ignore"}])})
    nclients = cfg["clients"]
    # every world starts with one model
    gen_model(g, gs, cfg, ops, sc.randrange(nclients))
    wt = cfg["weights"]
    kinds = [k for k in wt if wt[k] > 0]
    guard = 0
    while len(ops) < cfg["length"] and guard < 1200:
        guard += 1
        c = sc.randrange(nclients)
        # obligations are discharged late, with preference
        if gs.agenda and sc.random() < 0.25:
            rec = gs.agenda.pop(sc.randrange(len(gs.agenda)))
            rec["c"] = c
            ops.append(rec)
            # after a fault, ask the affected model (else any model) an already answered question again
            tgt = str(rec.get("target", ""))
            related = [r for r in gs.repeatable if r.get("op") == "m.call" and r.get("m") in gs.models and
                       (tgt.startswith(r["m"] + ".") or tgt in gs.models[r["m"]]["bufs"])]
            pool = related or gs.repeatable[-12:]
            if pool and sc.random() < 0.6:
                r2 = copy.deepcopy(sc.choice(pool))
                r2["c"] = sc.randrange(nclients)
                r2.pop("as_model", None)
                r2.pop("keep", None)
                ops.append(r2)
            continue
        kind = sc.choices(kinds, [wt[k] for k in kinds])[0]
        if gs.models and cfg.get("edits") and g.random() < 0.08:
            cand = [mid for mid, mm in gs.models.items() if mm["type"] in ("lganm", "nd")]
            if cand:
                mid = sc.choice(sorted(cand))
                ops.append({"c": c, "op": "m.edit", "m": mid,
                            "what": g.choice(["W", "means", "variances"] if gs.models[mid]["type"] == "lganm" else ["mean", "cov"])})
                # ask the edited model something that was asked before
                prev = [r for r in gs.repeatable if r.get("op") == "m.call" and r.get("m") == mid]
                if prev:
                    r2 = copy.deepcopy(sc.choice(prev))
                    r2["c"] = sc.randrange(nclients)
                    r2.pop("as_model", None)
                    r2.pop("keep", None)
                    r2["twin"] = True
                    ops.append(r2)
                continue
        if kind == "m.new":
            if len(gs.models) < cfg["max_models"]:
                gen_model(g, gs, cfg, ops, c, invalid=("call.invalid" in cfg["faults"] and g.random() < 0.1))
            continue
        if kind == "m.call" and gs.models:
            mid = sc.choice(sorted(gs.models))
            rec = gen_m_call(g, gs, cfg, mid)
            rec["c"] = c
            if cfg.get("bursts") and g.random() < 0.2 and cfg["pmax"] <= 12 and cfg["nmax"] <= 15 \
                    and not rec.get("sweep") and not rec.get("arm"):
                rec["burst"] = g.choice([12, 130, 260, 1030])
            keepable = rec["method"] not in ("str", "equal", "mse")
            if keepable and g.random() < 0.6:
                gs.nres += 1
                rec["keep"] = "r%d" % gs.nres
                is_pop = rec["method"] in ("marginal", "conditional") or rec.get("args", {}).get("population")
                if is_pop and not rec.get("invalid") and not rec.get("arm") and g.random() < 0.4 \
                        and len(gs.models) < cfg["max_models"] + 2:
                    gs.nmod += 1
                    did = "d%d" % gs.nmod
                    rec["as_model"] = did
                    pd = derived_p(gs.models[mid], rec)
                    if pd:
                        gs.models[did] = {"type": "nd", "p": pd, "bufs": [], "derived": True}
                    else:
                        rec.pop("as_model")
                elif "caller.scribble_output" in cfg["faults"] and g.random() < 0.6:
                    gs.agenda.append({"op": "fault.scribble", "target": rec["keep"],
                                      "how": g.choice(["add", "zero", "neg", "fill"])})
            ops.append(rec)
            if comparable(rec) and not rec.get("sweep"):
                gs.repeatable.append(rec)
            continue
        if kind == "u.call":
            rec = U.gen_utils_call(g, min(cfg["pmax"], 10))
            rec["c"] = c
            if g.random() < 0.15:
                rec["bykw"] = True
            if rec["fn"] in ("sampling_matrix",) and g.random() < max(cfg["sweep_rate"], 0.2):
                rec["sweep"] = True
            if rec["fn"] in ("gen.dag_avg_deg", "gen.dag_full") and not dec(rec["kw"].get("return_ordering", False)):
                # the generator's output will be handed on to a model constructor
                gs.nres += 1
                rec["keep"] = "r%d" % gs.nres
                gs.graph_bufs.append((rec["keep"], rec["args"][0]))
                ops.append(rec)
                gs.repeatable.append(rec)
                continue
            if g.random() < 0.5:
                gs.nres += 1
                rec["keep"] = "r%d" % gs.nres
                if "caller.scribble_output" in cfg["faults"] and g.random() < 0.6:
                    gs.agenda.append({"op": "fault.scribble", "target": rec["keep"],
                                      "how": g.choice(["add", "zero", "neg", "fill"])})
            ops.append(rec)
            gs.repeatable.append(rec)
            continue
        if kind == "repeat" and gs.repeatable:
            # the same comparable call again, later, possibly by another client
            rec = copy.deepcopy(sc.choice(gs.repeatable[-12:]))
            rec["c"] = c
            if rec.get("op") == "m.call" and g.random() < 0.15:
                rec["via"] = g.choice(["deepcopy", "pickle"])
            rec.pop("as_model", None)
            if "keep" in rec:
                gs.nres += 1
                rec["keep"] = "r%d" % gs.nres
            ops.append(rec)
            continue
        if kind == "variant" and gs.repeatable:
            # a near-duplicate of an earlier call: same index sets in another order, same targets with other
            # values, same seed with other arguments (collides with anything cached under too small a key)
            base = sc.choice(gs.repeatable[-12:])
            rec = make_variant(g, copy.deepcopy(base))
            if rec is not None:
                rec["c"] = c
                rec.pop("as_model", None)
                rec.pop("keep", None)
                ops.append(rec)
                if rec["op"] != "m.call" or comparable(rec):
                    gs.repeatable.append(rec)
            continue
        if kind == "fault" and cfg["faults"]:
            f = sc.choice(cfg["faults"])
            if f == "rng":
                r = g.random()
                if r < 0.4:
                    ops.append({"c": c, "op": "np.perturb", "kind": "draw", "dist": g.choice(["normal", "uniform", "choice"]),
                                "n": g.randint(1, 9)})
                elif r < 0.7:
                    ops.append({"c": c, "op": "np.perturb", "kind": "reseed", "seed": G.seed_value(g.choice(cfg["seeds"]))})
                elif r < 0.85:
                    ops.append({"c": c, "op": "py.random", "kind": "seed", "seed": g.getrandbits(16)})
                else:
                    ops.append({"c": c, "op": "entropy.draw", "n": 1})
            elif f == "gc":
                victims = [mid for mid, mm in gs.models.items() if not mm["derived"]]
                if len(victims) >= 1 and g.random() < 0.6:
                    mid = sc.choice(sorted(victims))
                    mt = gs.models[mid]["type"]
                    ops.append({"c": c, "op": "m.drop", "m": mid})
                    del gs.models[mid]
                    gs.repeatable = [r for r in gs.repeatable if r.get("m") != mid]
                    gs.agenda = [r for r in gs.agenda if not str(r.get("target", "")).startswith(mid + ".")]
                    # a new model of the same class right away: its id is likely to be the dropped one's
                    saved = cfg["types"]
                    cfg["types"] = [mt]
                    gen_model(g, gs, cfg, ops, c)
                    cfg["types"] = saved
                elif g.random() < 0.3:
                    from .world import IMPORTABLE
                    ops.append({"c": c, "op": "py.import", "module": g.choice(IMPORTABLE)})
                else:
                    ops.append({"c": c, "op": "gc"})
            elif gs.agenda:
                rec = gs.agenda.pop(sc.randrange(len(gs.agenda)))
                rec["c"] = c
                ops.append(rec)
            continue
    # discharge what is left of the agenda, each followed by a query of some model
    while gs.agenda and len(ops) < cfg["length"] + 12:
        rec = gs.agenda.pop(0)
        rec["c"] = sc.randrange(nclients)
        ops.append(rec)
        if gs.repeatable:
            r2 = copy.deepcopy(sc.choice(gs.repeatable[-12:]))
            r2["c"] = sc.randrange(nclients)
            r2.pop("as_model", None)
            r2.pop("keep", None)
            ops.append(r2)
    G.bitgen_variation(st["bitgen"], ops)
    no_extension_variation(st["noext"], ops)
    np_star_faults(st["np_star"], ops)
    giant_samples(st["giant"], gs, ops, nclients)
    plot_calls(st["plot"], gs, ops, nclients)
    G.printoptions_variation(st["printoptions"], ops, at_start_only=True)
    hash_twins(st["hashtwin"], gs, ops)
    f = st["errstate"]
    for rec in ops[:1]:
        r, state = f.random(), f.choice([{"under": "raise"}, {"all": "raise"}, {"under": "raise", "divide": "ignore"}])
        if rec.get("op") == "np.seterr" and r < 0.4:
            rec["state"] = state       # stricter error states of the caller (decided after generation)
    return cfg, ops


def hash_twins(f, gs, ops):
    """Values that are different and hash alike (CPython: hash(-1) == hash(-2), for ints and floats): in some runs one
    comparable LGANM.sample call gets an intervention value of -1 and is preceded, on the same model, by the same call
    with -2 in that place; the later call is then compared with a twin model that never saw the earlier one.  Decided
    by a stream of its own, after generation."""
    r, pick, which = f.random(), f.random(), f.random()
    cands = []
    for i, rec in enumerate(ops):
        if rec.get("op") != "m.call" or rec.get("method") != "sample" or gs.models.get(rec.get("m"), {}).get("type") != "lganm":
            continue
        if any(rec.get(x) for x in ("arm", "sweep", "burst", "invalid", "via", "giant", "variant")) or not comparable(rec):
            continue
        a = rec.get("args", {})
        kinds = [k for k in ("do", "shift", "noise") if isinstance(a.get(k), list) and a[k] and not a.get("same_dict")
                 and all(isinstance(it[1], (int, float)) or (isinstance(it[1], list) and len(it[1]) == 2 and
                         all(isinstance(q, (int, float)) for q in it[1])) for it in a[k])]
        if kinds:
            cands.append((i, kinds))
    if r >= 0.1 or not cands:
        return
    i, kinds = cands[int(pick * len(cands))]
    rec = ops[i]
    kind = kinds[int(which * len(kinds))]
    item = rec["args"][kind][0]
    item[1] = [-1.0, item[1][1]] if isinstance(item[1], list) else -1
    rec["twin"] = True
    rec["hash_twin"] = True
    before = copy.deepcopy(rec)
    for key in ("keep", "as_model", "twin", "hash_twin"):
        before.pop(key, None)
    it2 = before["args"][kind][0]
    it2[1] = [-2.0, it2[1][1]] if isinstance(it2[1], list) else -2
    ops.insert(i, before)


def giant_samples(f, gs, ops, nclients):
    """In about one run in fifty the session ends with two very large unseeded samples (just above 2**20 values) from
    one long-lived model, both kept by the caller, and one small call after them: a result that has been handed out
    stays put whatever its size (decided by a stream of its own, after generation)."""
    r, c = f.random(), f.randrange(nclients)
    small = sorted(mid for mid, m in gs.models.items() if m["type"] in ("lganm", "anm", "nd") and 1 <= (m.get("p") or 99) <= 4)
    if r >= 0.02 or not small:
        return
    mid = f.choice(small)
    m = gs.models[mid]
    n = -(-2 ** 20 // m["p"]) + f.randint(0, 3)
    args = {"n": n} if m["type"] == "nd" else {"n": n, "do": "omit", "shift": "omit", "noise": "omit"}
    for i in (1, 2):
        ops.append({"c": c, "op": "m.call", "m": mid, "method": "sample", "args": dict(args), "seed": None,
                    "keep": "giant%d" % i, "giant": True})
    ops.append({"c": c, "op": "m.call", "m": mid, "method": "sample", "args": dict(args, n=2), "seed": None})


def plot_calls(f, gs, ops, nclients):
    """The application looks at its graphs and matrices (sempler.plot, against the simulated display): in one run in
    eight, 1-3 plotting calls are put into the finished history, some of them on a matrix that is an attribute of a
    live model, some with the display failing at the k-th request or dying in a numpy call, some swept, some repeated
    later.  Decided by a stream of its own after generation, like the np.* faults."""
    if f.random() >= 0.125 or len(ops) < 4:
        return
    models = [(mid, m["type"], m.get("p")) for mid, m in sorted(gs.models.items())
              if m.get("type") in U.MODEL_MATRIX and not m.get("derived")]
    for _ in range(f.choice([1, 1, 2, 3])):
        rec = U.gen_plot_call(f, models)
        rec["c"] = f.randrange(nclients)
        r = f.random()
        if r < 0.25:
            rec["sweep"] = True
        elif r < 0.4:
            rec["arm"] = ["display.*", f.randint(1, 4), "RuntimeError"]
        elif r < 0.5:
            rec["arm"] = ["np.*", f.randint(1, 6), f.choice(["MemoryError", "KeyboardInterrupt"])]
        pos = f.randint(3, len(ops))
        ops.insert(pos, rec)
        if f.random() < 0.5:
            again = {k: v for k, v in copy.deepcopy(rec).items() if k not in ("arm", "sweep")}
            again["c"] = f.randrange(nclients)
            ops.insert(f.randint(pos + 1, len(ops)), again)


NOEXT_FNS = ("pdag_to_dag", "has_consistent_extension", "pdag_to_cpdag", "maximally_orient", "pdag_to_icpdag")


def no_extension_variation(f, ops):
    """A fifth of the calls that look for a consistent extension get a PDAG that has none and in which some nodes are
    removed before the search gets stuck (an undirected chordless cycle with pendant nodes): the failure - or the
    negative answer - comes late, after work on the matrix began.  Decided by a stream of its own, after generation."""
    for rec in ops:
        r = f.random()
        if rec.get("op") != "u.call" or rec.get("fn") not in NOEXT_FNS:
            continue
        P = U.pdag_without_extension(f)
        if r < 0.2 and not any_ref(rec.get("args")) and isinstance(rec["args"][0], dict) and "__call__" not in rec["args"][0]:
            rec["args"][0] = enc(P)
            rec["noext"] = True


def np_star_faults(f, ops):
    """Fault kind seam.raise on the seam "np.*" (any numpy call of the library): decided by a stream of its own, after
    the history has been generated, so that the histories themselves are what they were without it."""
    rate = f.choice([0, 0, 0.03, 0.08, 0.2])
    for rec in ops:
        if rec.get("op") not in ("m.call", "u.call"):
            continue
        r, r2, k, e = f.random(), f.random(), 1 + int(f.expovariate(1 / 7.0)), f.choice(["MemoryError", "KeyboardInterrupt"])
        if r >= rate or rec.get("arm") is not None or any(rec.get(x) for x in ("sweep", "burst", "invalid", "keep",
                                                                                 "as_model", "twin", "via")):
            continue
        if r2 < 0.5:
            rec["arm"] = ["np.*", k, e]
        else:
            rec["sweep"] = True


def _aslist(j):
    if isinstance(j, dict) and "__nd__" in j:
        return list(j["__nd__"]["data"]), "nd"
    if isinstance(j, dict) and "__tuple__" in j:
        return list(j["__tuple__"]), "list"
    if isinstance(j, dict) and "__range__" in j:
        return list(range(*j["__range__"])), "list"
    if isinstance(j, list):
        return list(j), "list"
    return [j], "scalar"


def _asarg(vals, form, dtype="<i8"):
    if form == "nd":
        return {"__nd__": {"dtype": dtype, "shape": [len(vals)], "data": list(vals)}}
    return list(vals)


def make_variant(g, rec):
    if rec.get("op") != "m.call":
        return None
    a = rec.get("args", {})
    method = rec["method"]
    if method == "conditional":
        X, fx = _aslist(a["X"])
        x, fv = _aslist(a["x"])
        if len(X) >= 2 and len(X) == len(x) and g.random() < 0.7:
            perm = list(range(len(X)))
            while perm == list(range(len(X))):
                g.shuffle(perm)
            a["X"] = _asarg([X[i] for i in perm], "list" if fx == "scalar" else fx)
            a["x"] = _asarg([x[i] for i in perm], "list" if fv == "scalar" else fv, "<f8")
        elif x:
            a["x"] = _asarg([round(v + G.r2(g, 0.5, 2), 2) for v in x], "list" if fv == "scalar" else fv, "<f8")
        else:
            return None
        rec.pop("invalid", None)
    elif method == "marginal":
        X, fx = _aslist(a["X"])
        if len(X) < 2:
            return None
        g.shuffle(X)
        a["X"] = _asarg(X, fx)
    elif method in ("regress", "mse"):
        Xs, fx = _aslist(a["Xs"])
        if len(Xs) >= 2 and g.random() < 0.6:
            g.shuffle(Xs)
            a["Xs"] = _asarg(Xs, "list" if fx == "scalar" else fx)
        elif a.get("y") in (-1, -2):
            a["y"] = -3 - a["y"]                    # -1 <-> -2, same predictors
        elif Xs:
            a["y"] = g.choice(Xs)
        else:
            return None
    elif method == "sample" and g.random() < 0.35 and any(
            isinstance(a.get(k), list) and a.get(k) for k in ("do", "shift", "noise")):
        # the same targets and parameters under other intervention kinds
        kinds = ["do", "shift", "noise"]
        perm = kinds[:]
        while perm == kinds:
            g.shuffle(perm)
        old = {k: a.get(k, "omit") for k in kinds}
        for k1, k2 in zip(kinds, perm):
            a[k2] = old[k1]
        a.pop("same_dict", None)
    elif method == "sample":
        changed = False
        for kind in ("do", "shift", "noise"):
            v = a.get(kind)
            if isinstance(v, list) and v:
                if len(v) >= 2 and g.random() < 0.4:
                    v.reverse()                       # same interventions, other insertion order
                else:
                    for item in v:
                        if isinstance(item[1], list) and len(item[1]) == 2 and all(
                                isinstance(q, (int, float)) for q in item[1]):
                            item[1] = [round(item[1][0] + G.r2(g, 0.5, 2), 2), round(abs(item[1][1]) + G.r2(g, 0.1, 1), 2)]
                        elif isinstance(item[1], (int, float)):
                            item[1] = round(item[1] + G.r2(g, 0.5, 2), 2)
                        elif isinstance(item[1], list) and item[1] and isinstance(item[1][0], str):
                            item[1] = G.rand_noise_spec(g)
                changed = True
        if not changed:
            if "n" in a and not a.get("population"):
                a["n"] = max(1, a["n"] + g.choice([-1, 1, 2]))
            else:
                return None
    else:
        return None
    rec["args"] = a
    rec["variant"] = True
    return rec


def derived_p(m, rec):
    a = rec.get("args", {})
    if rec["method"] == "marginal":
        return len(_aslist(a["X"])[0])
    if rec["method"] == "conditional":
        return len(_aslist(a["Y"])[0])
    if a.get("population"):
        return m["p"]
    return None


RULE = ("Each run is one seeded history of 8-70 operations by 1-4 clients over 1-7 long-lived models (LGANM, ANM, "
        "NormalDistribution, and distributions returned by earlier calls) built from caller-owned buffers: sample / "
        "marginal / conditional / regress / mse / equal / str calls with arbitrary interventions, calls of 78 "
        "sempler.utils functions and 3 generators on caller-owned arguments, re-issued earlier calls, and faults "
        "(caller scribbles on constructor inputs and on returned objects, documented-invalid calls, user callables "
        "that raise, numpy calls that raise at the k-th invocation, a systematic single-fault sweep, global-RNG "
        "perturbation, gc). A case is one operation in its history, abstracted to (model type, method, outcome class, "
        "bitmask of fault kinds since construction, bucketed number of earlier calls, intervened before); for utils "
        "calls (function, outcome class). distinct_nontrivial counts distinct abstractions with at least one "
        "intervention or fault in the model's history (utils: executed in a world with live models after step 3).")

ASSUMPTIONS = [
    "numpy and CPython are trusted; np.shares_memory decides aliasing",
    "underscore attributes may change (lazy private caches are legal); their effects are caught by the result oracles",
    "floating-point results are compared bitwise first and with rtol 1e-9 as the reporting threshold",
    "p <= 7, n <= 15, histories <= 72 operations; call-level histories with exceptions as the only interruptions",
    "sempler.plot runs against a simulated display (matplotlib and networkx's drawing functions are stubs that record "
    "requests and can fail); only argument / model / process-state integrity is checked for it, not what is drawn",
    "a clean batch is evidence over the sampled histories, not a proof",
]

REQUIRED_PROBES = ["iv.do.non_source", "iv.shift.non_source", "iv.noise.non_source", "iv.two_kinds_same_target",
                   "iv.scalar_value", "default_args_after_intervened_call", "scribble.in:LGANM",
                   "scribble.in:NormalDistribution", "scribble.in:ANM", "scribble.in:ParamCallable",
                   "scribble.in:assign_list", "scribble.in:noise_list", "scribble.out:LGANM.sample",
                   "scribble.out:NormalDistribution.marginal", "scribble.out:NormalDistribution.regress",
                   "scribble.out:utils.all_dags", "scribble.out:utils.split_data", "meek_rule_fired",
                   "all_dags.undirected_edge", "topological_ordering.with_edges", "split_data.n>=2",
                   "op_after_failed_op_same_model", "natural_LinAlgError", "history.first_vs_later",
                   "history.aged_vs_twin", "sweep.fault_positions", "sweep.utils", "obs_law.checked", "obs_law.checked:anm", "obs_law.checked:nd", "buf.view", "gc.model_dropped",
                   "gc.model_id_reused", "two_models_from_one_caller_array", "model_from_generator_output", "buf.lower_rank",
                   "buf.readonly_view", "buf.column_vector", "call.by_keyword", "scribble.in:bound_method_owner", "scribble.in:model_object_held_by_a_callable",
                   "scribble.in:partial_bound_array", "buf.pandas", "burst.calls_on_one_model", "model.used_through_a_copy", "caller.edits_model_attribute", "caller.non_default_errstate",
                   "call.same_object_for_two_parameters",
                   "utils.unseeded_call",
                   "nd.check_valid"]

REQUIRED_PROBES = REQUIRED_PROBES + ["call.tried_again_after_an_attempt_that_died", "sweep.call_repeated_after_the_failures", "call.after_its_hash_twin(-1 / -2)", "thread.calls_outside_main_thread", "fault.died_in_a_numpy_call(np.*)", "sweep.np_star", "sample.giant(>=2**20 values)", "display.plotting_call", "display.request_failed", "arg.is_an_attribute_of_a_live_model", "pdag.without_consistent_extension(nodes removed first)"]


def simplify(op):
    if op.get("op") == "m.call":
        a = op.get("args") or {}
        if a.get("n", 0) > 1:
            yield dict(op, args=dict(a, n=1))
        for kind in ("do", "shift", "noise"):
            if isinstance(a.get(kind), list) and a[kind]:
                yield dict(op, args=dict(a, **{kind: "omit"}))
        for flag in ("twin", "sweep", "keep"):
            if flag in op:
                yield {k: v for k, v in op.items() if k != flag}
        if op.get("burst", 0) > 3:
            yield dict(op, burst=max(3, op["burst"] // 4))
