"""The simulated world: live objects, call wrapper, event log, shared perturbation ops
(DESIGN 1.2, 2.2, 2.4)."""
import contextlib
import gc
import hashlib
import io
import random as pyrandom
from collections import Counter

import numpy as np

from . import boot
from .canon import dec, digest, outcome_digest, jkey
from .catalogue import make_fn
from .seeds import Streams, H


class Violation(dict):
    """{'cls':..., 'site':..., 'step':..., 'detail':...}"""

    def key(self):
        return (self["cls"], self["site"])


def interpreter_state():
    """Process-global interpreter / numpy settings that a library call has no business changing (numpy's global
    generator is NOT among them: seeded calls reseed it by documented design)."""
    import os
    import sys
    po = np.get_printoptions()
    return {"printoptions": repr(sorted((k, repr(v)) for k, v in po.items())),
            "recursionlimit": sys.getrecursionlimit(),
            "stdlib_random": hash(pyrandom.getstate()),
            "environ": hash(tuple(sorted(os.environ.items()))),
            "cwd": os.getcwd(),
            "errstate": repr(sorted(np.geterr().items())),
            "warnings_filters": repr([(f[0], getattr(f[1], "pattern", f[1]), getattr(f[2], "__name__", f[2]),
                                       getattr(f[3], "pattern", f[3]), f[4]) for f in __import__("warnings").filters])}


class Skip(Exception):
    """Op cannot run in this world (dangling reference after minimisation): skipped."""


class CallerThread:
    """One thread of the simulated application.  It executes the library calls handed to it one at a time while the
    scheduler (the main thread) waits: threads here are *where* a call runs, never a second call in flight."""

    def __init__(self, name):
        import queue
        import threading
        self.inbox, self.outbox = queue.Queue(), queue.Queue()
        self.thread = threading.Thread(target=self._loop, name=name, daemon=True)
        self.thread.start()

    def _loop(self):
        while True:
            body = self.inbox.get()
            if body is None:
                return
            try:
                self.outbox.put(("ok", body()))
            except BaseException as e:       # the body catches what the library raises; this is a harness fault
                self.outbox.put(("err", e))

    def run(self, body):
        self.inbox.put(body)
        kind, v = self.outbox.get()
        if kind == "err":
            raise v
        return v


class World:
    def __init__(self, sempler, run_seed, prop, reference=False):
        self.sempler = sempler
        # which thread of the application makes the calls: the main thread (most runs), one worker thread for the
        # whole session, or one thread per simulated client (objects built in one thread are used in another).
        # The history-free reference always runs in the main thread of its own process.
        self.client = 0
        self.threads = {}
        tm = Streams(run_seed)["threads"].random()
        self.thread_mode = "main" if (reference or tm < 0.7) else ("one_worker" if tm < 0.8 else "per_client")
        self.prop = prop
        self.streams = Streams(run_seed)
        self.objs = {}          # symbolic id -> live object
        self.meta = {}          # symbolic id -> bookkeeping owned by the checker
        self.log = []           # event log (for the fingerprint)
        self.events = []        # richer per-step records for oracles
        self.violations = []
        self.probes = Counter()
        self.faults = Counter()     # fault kinds that actually fired
        self.apis = Counter()       # API coverage
        self.step = 0
        self.states = {}        # saved numpy global states (np.perturb getstate/setstate)
        self.caller_err = None  # the simulated caller's numpy floating-point error state (None: numpy's default)
        self.caller_print = None    # the simulated caller's numpy print options (None: numpy's defaults)
        self.err_changed = []   # library calls that left that process-global state changed
        # process-global state of the system under test, seeded from the run seed
        ent = self.streams["entropy"]
        boot.set_entropy(lambda: ent.getrandbits(64))
        np.random.seed(self.streams["np_global"].getrandbits(32))
        pyrandom.seed(self.streams["py_global"].getrandbits(32))

    # -- calling into the library ------------------------------------------------
    def call(self, fn, *args, arm=None, **kwargs):
        """Call library code.  Returns ('ok', value) or ('exc', exception).

        arm = [seam name, nth, exception name]: fault kind seam.raise.
        stdout is captured (debug / verbose paths print)."""
        armt = None
        if arm is not None:
            armt = (arm[0], int(arm[1]), boot.make_exc(arm[2]))
        buf = io.StringIO()

        def body():
            # (numpy's error state is per thread / context: the caller's settings are put in place where the call runs)
            harness_err = np.seterr(**self.caller_err) if self.caller_err else None
            harness_print = None
            if self.caller_print:
                harness_print = np.get_printoptions()
                np.set_printoptions(**self.caller_print)
                expected_print = np.get_printoptions()
            try:
                v = fn(*args, **kwargs)
                return ("ok", v)
            except KeyboardInterrupt as e:     # only ever raised by the simulator itself
                if "injected by simulator" not in str(e):
                    raise
                return ("exc", e)
            except Exception as e:
                return ("exc", e)
            finally:
                if harness_print is not None:
                    if repr(np.get_printoptions()) != repr(expected_print):
                        self.err_changed.append({"process_global_state": ["printoptions"]})
                    np.set_printoptions(**{k: v for k, v in harness_print.items() if k in DEFAULT_PRINTOPTIONS})
                if harness_err is not None:
                    now = np.geterr()
                    if any(now[k] != v for k, v in self.caller_err.items()):
                        self.err_changed.append({k: [self.caller_err[k], now[k]] for k in self.caller_err if now[k] != self.caller_err[k]})
                    np.seterr(**harness_err)      # the harness itself computes under its own (default) settings

        boot.seams_begin(armt)
        try:
            with contextlib.redirect_stdout(buf):
                if self.thread_mode == "main":
                    out = body()
                else:
                    key = 0 if self.thread_mode == "one_worker" else self.client
                    t = self.threads.get(key)
                    if t is None:
                        t = self.threads[key] = CallerThread("application-thread-%d" % key)
                        self.probes["thread.application_threads"] += 1
                    out = t.run(body)
                    self.probes["thread.calls_outside_main_thread"] += 1
        finally:
            calls, pending = boot.seams_end()
        self.last_seam_calls = calls
        self.last_stdout = buf.getvalue()
        if arm is not None and not pending:
            self.faults["seam.raise"] += 1
            self.faults["seam.raise:" + arm[0]] += 1
            if arm[0] == "np.*":
                self.probes["fault.died_in_a_numpy_call(np.*)"] += 1
                self.probes["fault.np.*:" + arm[2]] += 1
            if arm[0] == "display.*":
                self.probes["display.request_failed"] += 1
        return out

    def fn(self, spec):
        if spec and spec[0] == "held":
            # ["held", name, inner spec]: ONE callable object that the simulated caller keeps and passes again
            held = self.__dict__.setdefault("held_callables", {})
            if spec[1] not in held:
                held[spec[1]] = make_fn(spec[2], self.sempler.noise)
                self.probes["callable.held_by_caller"] += 1
            else:
                self.probes["callable.held_by_caller.reused"] += 1
            return held[spec[1]]
        return make_fn(spec, self.sempler.noise)

    # -- event log -----------------------------------------------------------------
    def rng_digest(self):
        st = np.random.get_state()
        h = hashlib.sha1()
        h.update(st[1].tobytes())
        h.update(repr(st[2:]).encode())
        return h.hexdigest()[:12]

    def record(self, rec, outcome_dig, extra=None):
        ev = {"step": self.step, "c": rec.get("c", 0), "op": rec["op"],
              "arg": jkey(rec), "out": outcome_dig, "rng": self.rng_digest()}
        if extra:
            ev.update(extra)
        self.log.append((ev["step"], ev["c"], ev["op"], ev["arg"], ev["out"], ev["rng"]))
        return ev

    def fingerprint(self):
        h = hashlib.sha256()
        for e in self.log:
            h.update(repr(e).encode())
        return h.hexdigest()[:32]

    def violate(self, cls, site, detail, step=None):
        self.violations.append(Violation(cls=cls, site=site, step=self.step if step is None else step,
                                         detail=detail))

    # -- shared perturbation / fault ops ----------------------------------------------
    def op_np_perturb(self, rec):
        kind = rec["kind"]
        if kind == "draw":
            dist = rec.get("dist", "normal")
            n = int(rec.get("n", 1))
            r = np.random
            if dist == "normal":
                r.normal(0, 1, n)
            elif dist == "uniform":
                r.uniform(0, 1, n)
            elif dist == "laplace":
                r.laplace(0, 1, n)
            elif dist == "random":
                r.random(n)
            elif dist == "randint":
                r.randint(0, 10, n)
            elif dist == "choice":
                r.choice(5, n)
            elif dist == "permutation":
                r.permutation(n + 1)
            elif dist == "shuffle":
                r.shuffle(list(range(n + 1)))
            elif dist == "mvn":
                r.multivariate_normal(np.zeros(2), np.eye(2), size=n)
            else:
                raise ValueError(dist)
            self.faults["rng.draw"] += 1
        elif kind == "reseed":
            np.random.seed(int(rec["seed"]) % 2 ** 32)
            self.faults["rng.reseed"] += 1
        elif kind == "bitgen":
            # the application installs a fresh MT19937 bit generator behind numpy's global functions
            # (numpy.random.set_bit_generator): another way of reseeding the global generator
            np.random.set_bit_generator(np.random.MT19937(int(rec["seed"]) % 2 ** 32))
            self.faults["rng.reseed"] += 1
            self.faults["rng.set_bit_generator"] += 1
        elif kind == "getstate":
            self.states[rec["slot"]] = np.random.get_state()
        elif kind == "setstate":
            st = self.states.get(rec["slot"])
            if st is None:
                raise Skip()
            np.random.set_state(st)
            self.faults["rng.setstate"] += 1
        else:
            raise ValueError(kind)
        return "ok:-"

    def op_py_random(self, rec):
        if rec["kind"] == "seed":
            pyrandom.seed(int(rec["seed"]))
        else:
            for _ in range(int(rec.get("n", 1))):
                pyrandom.random()
        self.faults["rng.stdlib"] += 1
        return "ok:-"

    def op_entropy_draw(self, rec):
        g = np.random.default_rng(None)
        g.random(int(rec.get("n", 1)))
        self.faults["entropy"] += 1
        return "ok:-"

    def op_gc(self, rec):
        for k in rec.get("drop", []):
            self.objs.pop(k, None)
        gc.collect()
        self.faults["gc"] += 1
        return "ok:-"


IMPORTABLE = ["networkx", "scipy.linalg", "scipy.stats", "sempler.plot", "decimal", "fractions", "pandas",
              "numpy.ma", "multiprocessing"]


def op_py_import(self, rec):
    """The application imports another module in mid-session (what is loaded is process state too)."""
    import importlib
    import sys
    name = rec["module"]
    fresh = name not in sys.modules
    try:
        with contextlib.redirect_stdout(io.StringIO()):
            importlib.import_module(name)
    except Exception:
        pass
    self.faults["import"] += 1
    if fresh and name in sys.modules:
        self.probes["import.module_loaded_in_mid_session"] += 1
    return "ok:-"


World.op_py_import = op_py_import


def op_np_seterr(self, rec):
    """The application changes its numpy floating-point error state (process-wide for the application; library calls
    run under it).  state None / {}: back to numpy's default."""
    state = rec.get("state")
    if not state:
        self.caller_err = None
    else:
        old = np.seterr(**state)
        self.caller_err = dict(np.geterr())
        np.seterr(**old)
    self.faults["caller.errstate"] += 1
    return "ok:-"


World.op_np_seterr = op_np_seterr

DEFAULT_PRINTOPTIONS = dict(edgeitems=3, infstr="inf", linewidth=75, nanstr="nan", precision=8, suppress=False,
                            threshold=1000, formatter=None)


def op_np_printoptions(self, rec):
    """The application sets numpy's print options (process-global; what str() of an array shows).  state None: the
    defaults."""
    # (numpy keeps print options per thread / context, like the error state: they are put in place where each
    #  library call runs, see World.call)
    self.caller_print = dict(DEFAULT_PRINTOPTIONS, **rec["state"]) if rec.get("state") else None
    self.faults["caller.printoptions"] += 1
    self.probes["caller.changed_numpy_print_options"] += 1
    return "ok:-"


World.op_np_printoptions = op_np_printoptions

def op_py_warnings(self, rec):
    """The application changes its warnings filters (process-global: -W ignore, warnings.simplefilter in a start-up
    module, a library that silences RuntimeWarnings).  state None: warnings.resetwarnings().  Never "error": what a
    seeded call returns - when it returns - must not depend on them."""
    import builtins
    import warnings
    st = rec.get("state")
    if not st:
        warnings.resetwarnings()
    else:
        warnings.filterwarnings(st["action"], category=getattr(builtins, st.get("category", "Warning")))
    self.faults["caller.warnings_filters"] += 1
    self.probes["caller.changed_warnings_filters"] += 1
    return "ok:-"


World.op_py_warnings = op_py_warnings

SHARED_OPS = {
    "py.warnings": World.op_py_warnings,
    "py.import": World.op_py_import,
    "np.seterr": World.op_np_seterr,
    "np.printoptions": World.op_np_printoptions,
    "np.perturb": World.op_np_perturb,
    "py.random": World.op_py_random,
    "entropy.draw": World.op_entropy_draw,
    "gc": World.op_gc,
}
