"""Call templates for the public functions of sempler.utils and sempler.generators
(DESIGN 4.1, 11.1).  A template draws JSON-literal arguments by parameter role."""
import numpy as np

from . import gen_common as G
from .canon import enc


def CALL(fn, *args):
    """Argument computed in the world, before the call, by another library function
    (the intermediate is caller-owned)."""
    return {"__call__": [fn, list(args)]}


def _dtype(g):
    return g.choice([float, float, float, int, int, bool])


def dag(g, p, weighted=None, dtype=None):
    weighted = g.random() < 0.4 if weighted is None else weighted
    dtype = dtype or (float if weighted else _dtype(g))
    A = G.rand_dag(g, p, weighted=weighted)
    if g.random() < 0.04:
        A[g.randrange(p), g.randrange(p)] = 1      # possibly a self-loop: the diagonal need not be empty
    if g.random() < 0.15:
        return np.asfortranarray(A.astype(dtype))
    return A.astype(dtype)


def pdag(g, p, q=None, dtype=None):
    A = G.rand_dag(g, p, weighted=False)
    q = g.choice([0.2, 0.5, 0.8]) if q is None else q
    for i in range(p):
        for j in range(p):
            if A[i, j] != 0 and A[j, i] == 0 and g.random() < q:
                A[j, i] = 1
    if g.random() < 0.05:
        d = g.randrange(p)
        A[d, d] = 1                                  # a self-loop
    return A.astype(dtype or _dtype(g))


def chain(p, dtype=float):
    A = np.zeros((p, p), dtype=dtype)
    for i in range(p - 1):
        A[i, i + 1] = 1
    return A


def node(g, p):
    return g.randrange(p)


def nodeset(g, p, kmax=None):
    k = g.randint(0, min(p, kmax if kmax is not None else p))
    s = g.sample(range(p), k)
    r = g.random()
    if r < 0.15:
        return set(np.int64(i) for i in s)        # numpy integers, as np.where / pa() / ch() hand them out
    if r < 0.25:
        return frozenset(s)
    return set(s)


def disjoint_sets(g, p, n=3):
    nodes = list(range(p))
    g.shuffle(nodes)
    cuts = sorted(g.randint(0, p) for _ in range(n))
    out, prev = [], 0
    for c in cuts:
        out.append(set(nodes[prev:c]))
        prev = c
    return out


def cyclic(g, p):
    A = G.rand_dag(g, max(p, 2), density=0.6, weighted=False)
    q = len(A)
    i, j = g.sample(range(q), 2)
    A[i, j] = 1
    A[j, i] = 0
    # close a cycle through a third node if possible, else a 2-cycle is "undirected": force 3-cycle
    if q >= 3:
        k = [x for x in range(q) if x not in (i, j)][0]
        A[:] = 0
        A[i, j] = A[j, k] = A[k, i] = 1
    else:
        A[i, j] = A[j, i] = 1
    return A


def _small(g, pmax, lo=1, cap=5):
    return g.randint(lo, max(lo, min(pmax, cap)))


def sample_matrix(g, n, p):
    a = np.array([[G.r2(g, -5, 5) for _ in range(p)] for _ in range(n)], dtype=float).reshape(n, p)
    r = g.random()
    if r < 0.12:
        return np.asfortranarray(a)
    if r < 0.2:
        return a.astype(np.float32)
    return a


RATIOS = [[1.0], [0.5, 0.5], [0.25, 0.75], [0.5, 0.25, 0.25], [0.75, 0.25]]


def templates():
    """name -> function(g, pmax) -> (args, kwargs) of python values (encoded by the caller)."""
    T = {}

    def t(name):
        def deco(f):
            T[name] = f
            return f
        return deco

    # -- small array helpers
    @t("argmin")
    def _(g, pm):
        return [sample_matrix(g, g.randint(1, 4), g.randint(1, 4))], {}
    T["argmax"] = T["argmin"]

    @t("matrix_block")
    def _(g, pm):
        p = g.randint(1, pm)
        rows = [node(g, p) for _ in range(g.randint(1, p))]
        cols = [node(g, p) for _ in range(g.randint(1, p))]
        if g.random() < 0.4:
            rows, cols = np.array(rows), np.array(cols)
        return [sample_matrix(g, p, p), rows, cols], {}

    @t("sampling_matrix")
    def _(g, pm):
        return [dag(g, g.randint(1, pm), weighted=True)], {}

    @t("combinations")
    def _(g, pm):
        p = g.randint(1, 5)
        return [p, node(g, p)], {"empty": g.random() < 0.5}

    @t("nonzero")
    def _(g, pm):
        p = g.randint(1, pm)
        v = G.rand_vec(g, p, -1, 1)
        v[[i for i in range(p) if g.random() < 0.4]] = 0
        return [v], ({"tol": 0.5} if g.random() < 0.3 else {})

    for nm in ("ancestors", "descendants", "an", "desc", "neighbors", "adj", "pa", "ch", "chain_component"):
        def f(g, pm, nm=nm):
            p = g.randint(1, pm)
            A = pdag(g, p, q=0.0) if nm in ("ancestors", "descendants", "an", "desc") and g.random() < 0.7 else pdag(g, p)
            return [node(g, p), A], {}
        T[nm] = f

    @t("na")
    def _(g, pm):
        p = g.randint(2, max(2, pm))
        return [node(g, p), node(g, p), pdag(g, p)], {}

    @t("transitive_closure")
    def _(g, pm):
        p = g.randint(1, pm)
        return [cyclic(g, p) if g.random() < 0.1 else dag(g, p)], {}

    @t("allclose")
    def _(g, pm):
        A = sample_matrix(g, 2, 3)
        B = A + (0 if g.random() < 0.5 else 1e-3)
        return [A, B], {}

    @t("same_normal")
    def _(g, pm):
        p = g.randint(1, 3)
        return [sample_matrix(g, g.randint(2, 6), p), sample_matrix(g, g.randint(2, 6), p)], \
            {"debug": g.random() < 0.2}

    @t("is_clique")
    def _(g, pm):
        p = g.randint(1, pm)
        return [nodeset(g, p), pdag(g, p)], {}

    for nm in ("is_dag", "is_complete", "is_chain_graph", "topological_ordering", "vstructures", "moral_graph",
               "degrees", "only_directed", "only_undirected", "undirected_edges", "directed_edges", "skeleton",
               "edge_weights", "has_consistent_extension", "to_factorization"):
        def f(g, pm, nm=nm):
            p = g.randint(1, pm)
            r = g.random()
            if nm == "edge_weights":
                return [dag(g, p, weighted=True)], {}
            if nm in ("topological_ordering", "to_factorization", "moral_graph", "is_dag"):
                A = cyclic(g, p) if r < 0.1 else (pdag(g, p) if r < 0.2 else dag(g, p))
            elif nm == "is_chain_graph":
                A = chain(p) if r < 0.4 else dag(g, p)
            else:
                A = dag(g, p) if r < 0.4 else pdag(g, p)
            return [A], {}
        T[nm] = f

    @t("chain_graph")
    def _(g, pm):
        return [g.randint(1, 7)], {}

    @t("chain_graph_MEC")
    def _(g, pm):
        return [g.randint(1, 6)], {}

    @t("mec")
    def _(g, pm):
        p = _small(g, pm)
        r = g.random()
        A = chain(p) if r < 0.2 else (cyclic(g, p) if r < 0.28 else dag(g, p))
        return [A], {"check_chain": g.random() < 0.7}

    @t("imec")
    def _(g, pm):
        p = _small(g, pm)
        r = g.random()
        A = chain(p) if r < 0.2 else dag(g, p)
        I = nodeset(g, p, 2)
        if g.random() < 0.08:
            I = I | {p + 1}
        return [A, I], {"check_chain": g.random() < 0.7}

    @t("chain_graph_IMEC")
    def _(g, pm):
        p = g.randint(1, 6)
        A = chain(p) if g.random() < 0.85 else dag(g, p)
        return [A, nodeset(g, p, 2)], {}

    @t("semi_directed_paths")
    def _(g, pm):
        p = _small(g, pm, 2, 6)
        return [node(g, p), node(g, p), pdag(g, p)], {}

    @t("separates")
    def _(g, pm):
        p = _small(g, pm, 2, 6)
        S, A, B = disjoint_sets(g, p)
        if g.random() < 0.1 and A:
            B = B | {next(iter(A))}
        return [S, A, B, pdag(g, p)], {}

    @t("induced_subgraph")
    def _(g, pm):
        p = g.randint(1, pm)
        return [nodeset(g, p), pdag(g, p) if g.random() < 0.5 else dag(g, p, weighted=True)], {}

    @t("is_consistent_extension")
    def _(g, pm):
        p = _small(g, pm)
        D = dag(g, p, weighted=False)
        r = g.random()
        if r < 0.5:
            P = CALL("dag_to_cpdag", D)
        elif r < 0.9:
            P = pdag(g, p)
        else:
            return [pdag(g, p, q=1.0) if p > 1 else cyclic(g, 3), D], {"debug": g.random() < 0.2}
        return [D, P], {"debug": g.random() < 0.15}

    for nm in ("are_forward_neighbors", "are_backward_neighbors"):
        def f(g, pm, nm=nm):
            p = _small(g, pm, 2, 4)
            D = dag(g, p, weighted=False, dtype=int)
            D2 = dag(g, p, weighted=False, dtype=int)
            return [CALL("dag_to_cpdag", D), CALL("dag_to_cpdag", D2), node(g, p), node(g, p)], {}
        T[nm] = f

    @t("is_supergraph")
    def _(g, pm):
        p = g.randint(1, pm)
        A = dag(g, p, weighted=False, dtype=int) if g.random() < 0.75 else dag(g, p, weighted=True, dtype=float)
        B = A.copy()
        for _ in range(g.randint(0, 2)):
            B[node(g, p), node(g, p)] = g.choice([0, 1])
        return [B, A], {}

    for nm in ("has_subgraph", "has_supergraph"):
        def f(g, pm, nm=nm):
            p = g.randint(1, 4)
            wt = g.random() < 0.25                  # weighted graphs are graphs too
            L1 = [dag(g, p, weighted=wt, dtype=(float if wt else int)) for _ in range(g.randint(1, 3))]
            L2 = [dag(g, p, weighted=wt, dtype=(float if wt else int)) for _ in range(g.randint(1, 3))]
            if g.random() < 0.5:
                L2.append(L1[0].copy())
            return [L1, L2], {}
        T[nm] = f

    for nm in ("remove_edges", "add_edges"):
        def f(g, pm, nm=nm):
            p = g.randint(2, max(2, pm))
            return [dag(g, p), g.randint(0, 3)], {"random_state": g.choice([0, 1, 42, 7, None])}
        T[nm] = f

    @t("pdag_to_cpdag")
    def _(g, pm):
        p = _small(g, pm)
        return [pdag(g, p)], {}

    @t("dag_to_cpdag")
    def _(g, pm):
        p = _small(g, pm, 1, 6)
        return [cyclic(g, p) if g.random() < 0.08 else dag(g, p, weighted=False)], {}

    @t("pdag_to_dag")
    def _(g, pm):
        p = _small(g, pm, 1, 6)
        return [pdag(g, p)], {"debug": g.random() < 0.1}

    @t("order_edges")
    def _(g, pm):
        p = _small(g, pm, 1, 6)
        return [cyclic(g, p) if g.random() < 0.08 else dag(g, p, weighted=False)], {}

    @t("label_edges")
    def _(g, pm):
        p = _small(g, pm, 1, 6)
        D = dag(g, p, weighted=False, dtype=int)
        if g.random() < 0.1:
            return [D * 7], {}       # invalid ordering
        return [CALL("order_edges", D)], {}

    for nm in ("rule_1", "rule_2", "rule_3", "rule_4"):
        def f(g, pm, nm=nm):
            p = _small(g, pm, 2, 6)
            return [node(g, p), node(g, p), pdag(g, p)], {}
        T[nm] = f

    @t("maximally_orient")
    def _(g, pm):
        p = _small(g, pm, 1, 6)
        r = g.random()
        if r < 0.5:
            # a CPDAG with one extra orientation: Meek rules have something to do
            return [CALL("orient_one", CALL("dag_to_cpdag", dag(g, p, weighted=False, dtype=int)), g.randrange(1000))], \
                {"debug": g.random() < 0.1}
        return [pdag(g, p)], {"debug": g.random() < 0.1}

    @t("pdag_to_icpdag")
    def _(g, pm):
        p = _small(g, pm)
        r = g.random()
        P = CALL("dag_to_cpdag", dag(g, p, weighted=False, dtype=int)) if r < 0.6 else pdag(g, p)
        return [P, nodeset(g, p, 2)], {}

    @t("dag_to_icpdag")
    def _(g, pm):
        p = _small(g, pm)
        return [dag(g, p, weighted=False), nodeset(g, p, 2)], {"debug": g.random() < 0.1}

    @t("all_dags")
    def _(g, pm):
        p = _small(g, pm)
        r = g.random()
        P = CALL("dag_to_cpdag", dag(g, p, weighted=False, dtype=int)) if r < 0.5 else pdag(g, p, q=g.choice([0.2, 0.4]))
        kw = {}
        if g.random() < 0.2:
            kw["max_combinations"] = g.choice([1, 2, 4, 1000])
        return [P], kw

    @t("cartesian")
    def _(g, pm):
        arrays = [np.array([g.randint(0, 5) for _ in range(g.randint(1, 3))]) for _ in range(g.randint(1, 3))]
        if g.random() < 0.5:
            arrays = [a.tolist() for a in arrays]
        return [arrays], ({"dtype": "int64"} if g.random() < 0.5 else {})

    @t("sort")
    def _(g, pm):
        p = g.randint(1, 6)
        L = g.sample(range(p), g.randint(1, p))
        if g.random() < 0.5:
            order = list(range(p))
            g.shuffle(order)
            return [L if g.random() < 0.5 else np.array(L), order], {}
        return [L], {}

    @t("subsets")
    def _(g, pm):
        return [nodeset(g, 5, 4)], {}

    @t("member")
    def _(g, pm):
        p = g.randint(1, 3)
        L = [dag(g, p, weighted=False, dtype=int) for _ in range(g.randint(1, 3))]
        A = L[g.randrange(len(L))].copy() if g.random() < 0.6 else dag(g, p, weighted=False, dtype=int)
        return [L, A], {}

    @t("delete")
    def _(g, pm):
        n = g.randint(1, 6)
        arr = sample_matrix(g, n, g.randint(1, 3))
        mask = np.array([g.random() < 0.4 for _ in range(n)])
        return [arr, mask], {"axis": 0}

    @t("split_data")
    def _(g, pm):
        p = g.randint(1, 3)
        data = [sample_matrix(g, g.randint(2, 12), p) for _ in range(g.randint(1, 3))]
        ratios = g.choice(RATIOS)
        if g.random() < 0.08:
            ratios = [0.3, 0.3]
        if g.random() < 0.3:
            ratios = np.array(ratios, dtype=float)       # the ratios as an array instead of a list
        kw = {"random_state": g.choice([0, 1, 42, None])}
        r1, r2, r3 = g.random(), g.random(), g.random()
        if r1 < 0.15:
            # ratios whose floating-point sum is not exactly 1 (0.7 + 0.2 + 0.1 == 0.9999999999999999), list or array
            ratios = g.choice([[0.7, 0.2, 0.1], [0.1] * 10, [0.6, 0.3, 0.1], [0.3, 0.3, 0.4], [1 / 3.0] * 3])
            if r2 < 0.6:
                ratios = np.array(ratios, dtype=float)
        if r3 < 0.2:
            kw = {}                                   # random_state left to its documented default
        return [data, ratios], kw

    @t("sorted_tuple")
    def _(g, pm):
        L = [g.randint(0, 9) for _ in range(g.randint(0, 5))]
        return [set(L) if g.random() < 0.5 else L], {}

    @t("all_but")
    def _(g, pm):
        p = g.randint(1, 6)
        k = node(g, p) if g.random() < 0.5 else [node(g, p) for _ in range(2)]
        return [k, p], {}

    for nm in ("eg1", "eg2", "eg3", "eg4", "eg5", "eg6"):
        T[nm] = lambda g, pm: ([], {})

    # generators (no caller storage involved; determinism and non-aliasing of repeated results)
    @t("gen.dag_avg_deg")
    def _(g, pm):
        p = g.randint(2, 8) if g.random() < 0.93 else g.choice([300, 520])
        return [p, G.r2(g, 0.5, min(3.0, p - 1)), 0.5, 1.5], \
            {"return_ordering": g.random() < 0.5, "random_state": g.choice([0, 1, 42])}

    @t("gen.dag_full")
    def _(g, pm):
        p = g.randint(1, 7) if g.random() < 0.93 else g.choice([300, 520])      # far beyond the usual sizes
        return [p, 0.5, 1.5], {"return_ordering": g.random() < 0.5, "random_state": g.choice([0, 1, 42])}

    @t("gen.intervention_targets")
    def _(g, pm):
        p = g.randint(2, 10)
        size = g.randint(1, 3) if g.random() < 0.5 else (g.randint(0, 1), g.randint(1, 3))
        return [p, g.randint(1, 5), size], {"replace": g.random() < 0.5, "random_state": g.choice([0, 1, 42])}

    return T


TEMPLATES = templates()
# cartesian's documented output buffer is the only argument the library may write (DESIGN 4.2/4)
NAMES = sorted(TEMPLATES)


def enc_arg(x):
    if isinstance(x, dict) and "__call__" in x:
        fn, args = x["__call__"]
        return {"__call__": [fn, [enc_arg(a) for a in args]]}
    return enc(x)


SAME_TWICE = {"allclose": (0, 1), "is_supergraph": (0, 1), "is_consistent_extension": (0, 1),
              "has_subgraph": (0, 1), "has_supergraph": (0, 1), "same_normal": (0, 1)}


def gen_utils_call(g, pmax, name=None):
    name = name or g.choice(NAMES)
    args, kw = TEMPLATES[name](g, max(1, pmax))
    same = None
    if name in SAME_TWICE and g.random() < 0.15:
        same = list(SAME_TWICE[name])             # one caller object passed for two parameters
    if g.random() < 0.12:
        # list-like arguments handed over as tuples
        args = [tuple(a) if isinstance(a, list) else a for a in args]
    rec = {"op": "u.call", "fn": name, "args": [enc_arg(a) for a in args], "kw": {k: enc(v) for k, v in kw.items()}}
    if same:
        rec["same_object"] = same
    return rec


# -- sempler.plot against the simulated display (DESIGN 12.1, "display peer").  Not part of TEMPLATES / NAMES: plotting
# calls are decided by a random stream of their own after the history has been generated (c14.plot_calls), so that
# the histories themselves are what they were without them.

MODEL_MATRIX = {"lganm": "W", "anm": "A", "nd": "covariance"}


def gen_plot_call(f, models):
    """models: [(model id, type, p)] alive at generation time; in a third of the calls the application plots a matrix
    that IS an attribute of one of its models (plot_graph(model.W)): a plotting function that tidies up its argument
    in place then changes the model."""
    name = f.choice(["plot.plot_graph", "plot.plot_matrix"])
    p = f.randint(1, 6)
    if name == "plot.plot_graph":
        A = dag(f, p, weighted=f.random() < 0.6)
        if f.random() < 0.2:
            A = A * f.choice([1e-17, 1e-9, -1.0]) if A.dtype.kind == "f" else A
        kw = {}
        r = f.random()
        if r < 0.3:
            kw["labels"] = ["v%d" % i for i in range(p)]
        elif r < 0.4:
            kw["labels"] = list(range(10, 10 + p))
        if f.random() < 0.6:
            kw["weights"] = f.random() < 0.7
    else:
        r = f.random()
        if r < 0.5:
            A = sample_matrix(f, p, p)
            for i in range(p):
                for j in range(p):
                    if f.random() < 0.3:
                        A[i, j] = f.choice([0.0, 1e-17, -1e-20, 7.0])
        elif r < 0.8:
            A = dag(f, p, weighted=True, dtype=float)
        else:
            A = dag(f, p, weighted=False)
        kw = {}
        if f.random() < 0.3:
            kw["thresh"] = f.choice([1e-16, 1e-8, 0.5])
        if f.random() < 0.3:
            kw["vmin"], kw["vmax"] = -1, 1
        if f.random() < 0.2:
            kw["formt"] = "%0.1f"
    arg = enc_arg(A)
    if models and f.random() < 0.35:
        mid, mt, _ = f.choice(models)
        arg = {"__ref__": mid, "attr": MODEL_MATRIX[mt]}
    return {"op": "u.call", "fn": name, "args": [arg], "kw": {k: enc(v) for k, v in kw.items()},
            "sweep_exc": "RuntimeError"}


def pdag_without_extension(f):
    """A PDAG that admits no consistent extension, in which the Dor-Tarsi procedure removes some nodes before it gets
    stuck: an undirected chordless cycle of length 4-5 with pendant sinks / pendant undirected leaves, nodes relabelled."""
    L = f.choice([4, 4, 5])
    extra = f.randint(1, 3)
    p = L + extra
    A = np.zeros((p, p))
    for i in range(L):
        j = (i + 1) % L
        A[i, j] = A[j, i] = 1
    for e in range(L, p):
        c = f.randrange(L)
        A[c, e] = 1                       # cycle node -> pendant sink
        if f.random() < 0.3:
            A[e, c] = 1                   # ... or an undirected pendant leaf
    perm = list(range(p))
    f.shuffle(perm)
    A = A[np.ix_(perm, perm)]
    return A.astype(f.choice([float, int, int, bool]))
