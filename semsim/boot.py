"""Bootstrap of the simulated world's process (DESIGN 1.1, 1.2).

Must run BEFORE sempler is imported:
  * numpy.random.default_rng is wrapped: seed None => seed drawn from the simulator's
    entropy stream (S2).  Every other argument passes through untouched.
  * the repo root goes first on sys.path, and (for C19) the fake rpy2 package before it.
  * seam wrappers (S9) are installed on numpy attributes; they are inert unless armed.
"""
import os
import sys

import numpy as np

HERE = os.path.dirname(os.path.abspath(__file__))
VERIF = os.path.dirname(HERE)

_state = {
    "entropy": None,        # callable returning an int, or None => real entropy
    "entropy_calls": 0,
    "booted": False,
    "repo": None,
}

_real_default_rng = np.random.default_rng


def _default_rng(seed=None, *a, **k):
    if seed is None and not a and not k:
        _state["entropy_calls"] += 1
        src = _state["entropy"]
        if src is not None:
            return _real_default_rng(src())
    return _real_default_rng(seed, *a, **k)


def set_entropy(fn):
    _state["entropy"] = fn


def entropy_calls():
    return _state["entropy_calls"]


# ---------------------------------------------------------------------------
# S9: numpy seams that can genuinely fail inside a library operation

class Seam:
    """Pass-through wrapper; when armed, the nth call (1-based) raises `exc`."""

    def __init__(self, name, real):
        self.name = name
        self.real = real
        self.calls = 0          # calls since last reset (only counted while tracking)
        self.tracking = False
        self.arm_nth = None
        self.arm_exc = None
        self.fired = 0
        self.__name__ = getattr(real, "__name__", name)
        self.__doc__ = getattr(real, "__doc__", None)

    def __call__(self, *a, **k):
        if self.tracking:
            self.calls += 1
            if self.arm_nth is not None and self.calls == self.arm_nth:
                self.arm_nth = None
                self.fired += 1
                raise self.arm_exc
        return self.real(*a, **k)


SEAMS = {}


def _install_seams():
    targets = [
        ("np.linalg.inv", np.linalg, "inv"),
        ("np.linalg.solve", np.linalg, "solve"),
        ("np.linalg.cholesky", np.linalg, "cholesky"),
        ("np.random.multivariate_normal", np.random, "multivariate_normal"),
    ]
    for name, mod, attr in targets:
        s = Seam(name, getattr(mod, attr))
        SEAMS[name] = s
        setattr(mod, attr, s)


class _PandasProxy:
    """`pd` as seen by sempler.semi and drf.code: real pandas, except that DataFrame construction goes
    through a seam that can fail like an allocation does (fault kind alloc.fail)."""

    def __init__(self, real, seam):
        self.__dict__["_real"] = real
        self.__dict__["DataFrame"] = seam

    def __getattr__(self, name):
        return getattr(self._real, name)


def install_pandas_seam(modules):
    import pandas
    s = Seam("pd.DataFrame", pandas.DataFrame)
    SEAMS["pd.DataFrame"] = s
    proxy = _PandasProxy(pandas, s)
    for m in modules:
        if getattr(m, "pd", None) is pandas:
            m.pd = proxy


def seams_begin(arm=None):
    """Start tracking seam calls for one library op.  arm = (seam name, nth, exception)."""
    for s in SEAMS.values():
        s.calls = 0
        s.tracking = True
        s.arm_nth = None
    if arm is not None and arm[0] in SEAMS:      # (an unknown seam never fires)
        s = SEAMS[arm[0]]
        s.arm_nth, s.arm_exc = arm[1], arm[2]


def seams_end():
    """Stop tracking; returns {seam: calls} and whether an armed fault is still pending."""
    calls = {}
    pending = False
    for s in SEAMS.values():
        s.tracking = False
        if s.calls:
            calls[s.name] = s.calls
        if s.arm_nth is not None:
            pending = True
            s.arm_nth = None
    return calls, pending


# ---------------------------------------------------------------------------
# S9b: every numpy call the library makes is a place where an allocation can fail or the user's Ctrl-C can
# land ("failing allocations and system calls", "crash at arbitrary points").  The name `np` inside the
# library's modules is replaced by a pass-through proxy; functions reached through it count as calls of the
# one seam "np.*" and the k-th of them inside one library operation can raise.  Types, ufunc objects,
# constants and index helpers are handed out unchanged.  The fault never fires while library code is
# running a `finally:` / `except:` block, an `__exit__` or a `__del__`: an implementation that undoes a
# temporary change there satisfies the properties and is not to be tripped up inside its own cleanup.

import ast
import types

_CLEANUP = {}


def _cleanup_lines(filename):
    c = _CLEANUP.get(filename)
    if c is None:
        c = set()
        try:
            tree = ast.parse(open(filename, encoding="utf-8").read())
            for node in ast.walk(tree):
                if isinstance(node, ast.Try) or type(node).__name__ == "TryStar":
                    for st in list(node.finalbody) + [x for h in node.handlers for x in h.body]:
                        c.update(range(st.lineno, (st.end_lineno or st.lineno) + 1))
        except Exception:
            pass
        _CLEANUP[filename] = c
    return c


def in_cleanup(frame):
    while frame is not None:
        co = frame.f_code
        if co.co_name in ("__exit__", "__del__", "__aexit__"):
            return True
        fn = co.co_filename
        if _state["repo"] and fn.startswith(_state["repo"] + os.sep) and frame.f_lineno in _cleanup_lines(fn):
            return True
        frame = frame.f_back
    return False


class NumpyGate(Seam):
    """The seam "np.*": counts every function call made through the proxy while tracking."""

    def __init__(self):
        Seam.__init__(self, "np.*", None)
        self.skipped_in_cleanup = 0
        self.last_site = None

    def wrap(self, real, name):
        return ProxyCall(real, name, self)


class ProxyCall:
    """What the library gets for `np.<function>`: calls the real thing; while a library operation is tracked it counts
    as one call of the seam np.* and may fail instead.  It copies and pickles like the real attribute would: a bound
    method of numpy's global RandomState (np.random.normal, ...) takes a clone of that RandomState along, exactly as
    `copy.deepcopy(np.random.normal)` does."""

    def __init__(self, real, name, gate):
        self.real, self.name, self.gate = real, name, gate
        self.__name__ = getattr(real, "__name__", name)
        self.__doc__ = getattr(real, "__doc__", None)
        self.__wrapped__ = real

    def __call__(self, *a, **k):
        gate = self.gate
        if gate.tracking:
            gate.calls += 1
            if gate.arm_nth is not None and gate.calls == gate.arm_nth:
                if in_cleanup(sys._getframe(1)):
                    gate.skipped_in_cleanup += 1      # stays pending: reported as "did not fire"
                else:
                    gate.arm_nth = None
                    gate.fired += 1
                    gate.last_site = self.name
                    raise gate.arm_exc
        return self.real(*a, **k)

    def __getattr__(self, attr):          # (only for what is not set above, e.g. __self__ of a bound method)
        if attr in ("real", "name", "gate"):
            raise AttributeError(attr)
        return getattr(self.real, attr)

    def __deepcopy__(self, memo):
        import copy
        return ProxyCall(copy.deepcopy(self.real, memo), self.name, self.gate)

    def __copy__(self):
        return ProxyCall(self.real, self.name, self.gate)

    def __reduce__(self):
        return (_rebuild_proxycall, (self.real, self.name))


def _rebuild_proxycall(real, name):
    return ProxyCall(real, name, SEAMS.get("np.*") or NumpyGate())


_WRAPPABLE = (types.FunctionType, types.BuiltinFunctionType, types.MethodType, types.BuiltinMethodType)


class NumpyProxy:
    def __init__(self, real, path, gate):
        d = self.__dict__
        d["_real"], d["_path"], d["_gate"], d["_cache"] = real, path, gate, {}

    def __getattr__(self, name):
        c = self.__dict__["_cache"]
        if name in c:
            return c[name]
        v = getattr(self._real, name)
        if isinstance(v, types.ModuleType):
            w = NumpyProxy(v, self._path + "." + name, self._gate)
        elif isinstance(v, _WRAPPABLE) or isinstance(v, Seam) or type(v).__name__ == "_ArrayFunctionDispatcher":
            w = self._gate.wrap(v, self._path + "." + name)
        else:
            return v
        c[name] = w
        return w

    def __setattr__(self, name, value):
        setattr(self._real, name, value)

    def __dir__(self):
        return dir(self._real)


def install_numpy_proxy(modules):
    if "np.*" not in SEAMS:
        SEAMS["np.*"] = NumpyGate()
    proxy = NumpyProxy(np, "np", SEAMS["np.*"])
    n = 0
    for m in modules:
        if getattr(m, "np", None) is np:
            m.np = proxy
            n += 1
    return n


class SimClock:
    """S8: every clock the standard library offers, replaced inside the forked run child by a
    counter that jumps ahead at each read.  sempler has no timer; code that lets a clock leak
    into a seeded result is exposed because the jump makes any two reads differ."""

    def __init__(self, start, frozen=False):
        self.t = float(start)
        self.reads = 0
        self.frozen = frozen      # a coarse clock: every read within the run returns the same instant

    def _tick(self):
        self.reads += 1
        if not self.frozen:
            self.t += 1000.003
        return self.t

    def install(self):
        import time
        time.time = self._tick
        time.monotonic = self._tick
        time.perf_counter = self._tick
        time.time_ns = lambda: int(self._tick() * 1e9)
        time.monotonic_ns = lambda: int(self._tick() * 1e9)
        time.perf_counter_ns = lambda: int(self._tick() * 1e9)


CLOCK = None


def install_clock(start, frozen=False):
    global CLOCK
    CLOCK = SimClock(start, frozen)
    CLOCK.install()
    return CLOCK


def make_exc(name):
    if name == "MemoryError":
        return MemoryError("injected by simulator")
    if name == "LinAlgError":
        return np.linalg.LinAlgError("injected by simulator")
    if name == "KeyboardInterrupt":
        return KeyboardInterrupt("injected by simulator")
    if name == "RuntimeError":
        return RuntimeError("injected by simulator")
    raise ValueError(name)


# ---------------------------------------------------------------------------
# Display peer: sempler.plot talks to matplotlib (absent here) and to networkx's drawing functions (which need a
# real matplotlib).  Both are replaced by a simulated display that records every request and can fail
# (seam "display.*").  sempler/plot.py itself, networkx's graph construction and layout, and sempler.utils are real.

class _NxProxy:
    """`nx` as seen by sempler.plot: real networkx, except for the two drawing functions."""

    def __init__(self, real):
        self.__dict__["_real"] = real

    def __getattr__(self, name):
        return getattr(self._real, name)

    def draw(self, G, pos=None, **kw):
        from matplotlib import _display
        edges = sorted((int(u), int(v), repr(d.get("weight", 1))) for u, v, d in G.edges(data=True))
        _display.message("nx.draw", edges, sorted(pos) if pos else None,
                         dict((k, dict(v) if isinstance(v, dict) else v) for k, v in kw.items()))

    def draw_networkx_edge_labels(self, G, pos, edge_labels=None, **kw):
        from matplotlib import _display
        _display.message("nx.edge_labels", dict(edge_labels or {}), kw)


def plot_module():
    """sempler.plot against the simulated display.  Loaded at the first plotting call of a run, not at boot: what
    the application has imported is process state (networkx comes with it), and most runs never plot."""
    m = sys.modules.get("sempler.plot")
    if m is not None and getattr(m, "_semsim_display", False):
        return m
    p = os.path.join(VERIF, "fake_mpl")
    if p not in sys.path:
        sys.path.insert(1, p)
    import matplotlib
    if not os.path.realpath(matplotlib.__file__).startswith(p + os.sep):
        raise RuntimeError("a real matplotlib was imported instead of the simulated display")
    import networkx
    import sempler.plot as m
    f = os.path.realpath(m.__file__)
    if not f.startswith(_state["repo"] + os.sep):
        raise RuntimeError("sempler.plot imported from %s" % f)
    if getattr(m, "nx", None) is networkx:
        m.nx = _NxProxy(networkx)
    from matplotlib import _display
    if "display.*" not in SEAMS:
        SEAMS["display.*"] = Seam("display.*", lambda kind: None)
    _display.HOOK = SEAMS["display.*"]
    if os.environ.get("SEMSIM_NO_NP_PROXY") != "1":
        install_numpy_proxy([m])
    m._semsim_display = True
    return m


# ---------------------------------------------------------------------------

def boot(repo="/repo", with_peer=False, quiet=True):
    """Patch, set sys.path, import sempler from `repo`.  Idempotent per process."""
    if _state["booted"]:
        if os.path.realpath(repo) != _state["repo"]:
            raise RuntimeError("already booted with another repo")
        return sys.modules["sempler"]
    repo = os.path.realpath(repo)
    sys.dont_write_bytecode = True
    np.random.default_rng = _default_rng
    _install_seams()
    if with_peer:
        sys.path.insert(0, os.path.join(VERIF, "fake_rpy2"))
    sys.path.insert(0, repo)
    for m in list(sys.modules):
        if m == "sempler" or m.startswith("sempler.") or m == "drf" or m.startswith("drf."):
            raise RuntimeError("sempler imported before boot()")
    if quiet:
        import io
        import contextlib
        buf = io.StringIO()
        with contextlib.redirect_stdout(buf):
            import sempler
            import sempler.generators
            import sempler.noise
            import sempler.utils
    else:
        import sempler
        import sempler.generators
        import sempler.noise
        import sempler.utils
    f = os.path.realpath(sempler.__file__)
    if not f.startswith(repo + os.sep):
        raise RuntimeError("sempler imported from %s, expected under %s" % (f, repo))
    if with_peer:
        import drf
        import sempler.semi
        f2 = os.path.realpath(drf.__file__)
        if not f2.startswith(repo + os.sep):
            raise RuntimeError("drf imported from %s, expected under %s" % (f2, repo))
        import rpy2
        if not os.path.realpath(rpy2.__file__).startswith(os.path.join(VERIF, "fake_rpy2")):
            raise RuntimeError("a real rpy2 was imported instead of the simulated peer")
        import drf.code
        install_pandas_seam([sempler.semi, drf.code])
    _state["booted"] = True
    _state["repo"] = repo
    if os.environ.get("SEMSIM_NO_NP_PROXY") != "1":
        import sempler.lganm
        import sempler.anm
        import sempler.normal_distribution
        mods = [sempler.utils, sempler.lganm, sempler.anm, sempler.normal_distribution, sempler.generators,
                sempler.noise]
        if with_peer:
            mods += [sempler.semi, drf.code]
        install_numpy_proxy(mods)
    return sempler
