"""Bootstrap of the simulated world's process (DESIGN 1.1, 1.2).

Must run BEFORE sempler is imported:
  * numpy.random.default_rng is wrapped: seed None => seed drawn from the simulator's
    entropy stream (S2).  Every other argument passes through untouched.
  * the repo root goes first on sys.path, and (for C19) the fake rpy2 package before it.
  * seam wrappers (S9) are installed on numpy attributes; they are inert unless armed.
"""
import os
import sys

import numpy as np

HERE = os.path.dirname(os.path.abspath(__file__))
VERIF = os.path.dirname(HERE)

_state = {
    "entropy": None,        # callable returning an int, or None => real entropy
    "entropy_calls": 0,
    "booted": False,
    "repo": None,
}

_real_default_rng = np.random.default_rng


def _default_rng(seed=None, *a, **k):
    if seed is None and not a and not k:
        _state["entropy_calls"] += 1
        src = _state["entropy"]
        if src is not None:
            return _real_default_rng(src())
    return _real_default_rng(seed, *a, **k)


def set_entropy(fn):
    _state["entropy"] = fn


def entropy_calls():
    return _state["entropy_calls"]


# ---------------------------------------------------------------------------
# S9: numpy seams that can genuinely fail inside a library operation

class Seam:
    """Pass-through wrapper; when armed, the nth call (1-based) raises `exc`."""

    def __init__(self, name, real):
        self.name = name
        self.real = real
        self.calls = 0          # calls since last reset (only counted while tracking)
        self.tracking = False
        self.arm_nth = None
        self.arm_exc = None
        self.fired = 0
        self.__name__ = getattr(real, "__name__", name)
        self.__doc__ = getattr(real, "__doc__", None)

    def __call__(self, *a, **k):
        if self.tracking:
            self.calls += 1
            if self.arm_nth is not None and self.calls == self.arm_nth:
                self.arm_nth = None
                self.fired += 1
                raise self.arm_exc
        return self.real(*a, **k)


SEAMS = {}


def _install_seams():
    targets = [
        ("np.linalg.inv", np.linalg, "inv"),
        ("np.linalg.solve", np.linalg, "solve"),
        ("np.linalg.cholesky", np.linalg, "cholesky"),
        ("np.random.multivariate_normal", np.random, "multivariate_normal"),
    ]
    for name, mod, attr in targets:
        s = Seam(name, getattr(mod, attr))
        SEAMS[name] = s
        setattr(mod, attr, s)


class _PandasProxy:
    """`pd` as seen by sempler.semi and drf.code: real pandas, except that DataFrame construction goes
    through a seam that can fail like an allocation does (fault kind alloc.fail)."""

    def __init__(self, real, seam):
        self.__dict__["_real"] = real
        self.__dict__["DataFrame"] = seam

    def __getattr__(self, name):
        return getattr(self._real, name)


def install_pandas_seam(modules):
    import pandas
    s = Seam("pd.DataFrame", pandas.DataFrame)
    SEAMS["pd.DataFrame"] = s
    proxy = _PandasProxy(pandas, s)
    for m in modules:
        if getattr(m, "pd", None) is pandas:
            m.pd = proxy


def seams_begin(arm=None):
    """Start tracking seam calls for one library op.  arm = (seam name, nth, exception)."""
    for s in SEAMS.values():
        s.calls = 0
        s.tracking = True
        s.arm_nth = None
    if arm is not None:
        s = SEAMS[arm[0]]
        s.arm_nth, s.arm_exc = arm[1], arm[2]


def seams_end():
    """Stop tracking; returns {seam: calls} and whether an armed fault is still pending."""
    calls = {}
    pending = False
    for s in SEAMS.values():
        s.tracking = False
        if s.calls:
            calls[s.name] = s.calls
        if s.arm_nth is not None:
            pending = True
            s.arm_nth = None
    return calls, pending


class SimClock:
    """S8: every clock the standard library offers, replaced inside the forked run child by a
    counter that jumps ahead at each read.  sempler has no timer; code that lets a clock leak
    into a seeded result is exposed because the jump makes any two reads differ."""

    def __init__(self, start, frozen=False):
        self.t = float(start)
        self.reads = 0
        self.frozen = frozen      # a coarse clock: every read within the run returns the same instant

    def _tick(self):
        self.reads += 1
        if not self.frozen:
            self.t += 1000.003
        return self.t

    def install(self):
        import time
        time.time = self._tick
        time.monotonic = self._tick
        time.perf_counter = self._tick
        time.time_ns = lambda: int(self._tick() * 1e9)
        time.monotonic_ns = lambda: int(self._tick() * 1e9)
        time.perf_counter_ns = lambda: int(self._tick() * 1e9)


CLOCK = None


def install_clock(start, frozen=False):
    global CLOCK
    CLOCK = SimClock(start, frozen)
    CLOCK.install()
    return CLOCK


def make_exc(name):
    if name == "MemoryError":
        return MemoryError("injected by simulator")
    if name == "LinAlgError":
        return np.linalg.LinAlgError("injected by simulator")
    if name == "KeyboardInterrupt":
        return KeyboardInterrupt("injected by simulator")
    if name == "RuntimeError":
        return RuntimeError("injected by simulator")
    raise ValueError(name)


# ---------------------------------------------------------------------------

def boot(repo="/repo", with_peer=False, quiet=True):
    """Patch, set sys.path, import sempler from `repo`.  Idempotent per process."""
    if _state["booted"]:
        if os.path.realpath(repo) != _state["repo"]:
            raise RuntimeError("already booted with another repo")
        return sys.modules["sempler"]
    repo = os.path.realpath(repo)
    sys.dont_write_bytecode = True
    np.random.default_rng = _default_rng
    _install_seams()
    if with_peer:
        sys.path.insert(0, os.path.join(VERIF, "fake_rpy2"))
    sys.path.insert(0, repo)
    for m in list(sys.modules):
        if m == "sempler" or m.startswith("sempler.") or m == "drf" or m.startswith("drf."):
            raise RuntimeError("sempler imported before boot()")
    if quiet:
        import io
        import contextlib
        buf = io.StringIO()
        with contextlib.redirect_stdout(buf):
            import sempler
            import sempler.generators
            import sempler.noise
            import sempler.utils
    else:
        import sempler
        import sempler.generators
        import sempler.noise
        import sempler.utils
    f = os.path.realpath(sempler.__file__)
    if not f.startswith(repo + os.sep):
        raise RuntimeError("sempler imported from %s, expected under %s" % (f, repo))
    if with_peer:
        import drf
        import sempler.semi
        f2 = os.path.realpath(drf.__file__)
        if not f2.startswith(repo + os.sep):
            raise RuntimeError("drf imported from %s, expected under %s" % (f2, repo))
        import rpy2
        if not os.path.realpath(rpy2.__file__).startswith(os.path.join(VERIF, "fake_rpy2")):
            raise RuntimeError("a real rpy2 was imported instead of the simulated peer")
        import drf.code
        install_pandas_seam([sempler.semi, drf.code])
    _state["booted"] = True
    _state["repo"] = repo
    return sempler
