"""C19 — semi-synthetic samples factorise according to the given graph (DESIGN section 5).

The Python side (sempler/semi.py, drf/code.py, pandas) is real; the R side is the simulated
peer in /verif/fake_rpy2, whose message log is the recorded history the oracles read."""
import copy
import math

import numpy as np

from . import gen_common as G
from .apis import invoke
from .canon import enc, dec, digest, jkey, outcome_digest, arrays_of
from .seeds import Streams
from .world import World, SHARED_OPS, Skip

PROP = "C19"
XSITE = "DRFNet.sample"


def peer():
    from rpy2._peer import PEER
    return PEER


class FakeTime:
    """sempler.semi reads time.time() on verbose paths only: a step counter stands in."""

    def __init__(self):
        self.t = 0.0

    def time(self):
        self.t += 1.0
        return self.t


class State:
    def __init__(self):
        self.nets = {}        # id -> dict
        self.bufs = {}        # caller-owned: 'n1.graph' -> array, 'n1.data' -> list of arrays
        self.results = {}     # id -> sample
        self.first = {}       # seeded-sample key -> (digest, step, scribbled?)
        self.oblig = {}
        self.distinct = set()
        self.peer_cfg = {}


# ===========================================================================
# execution
# ===========================================================================

def h_peer_config(w, st, rec):
    st.peer_cfg = {k: rec[k] for k in ("k", "slack", "y_as", "uniform", "tail") if k in rec}
    peer().reset(st.peer_cfg)
    return "ok:-", None


def parents(graph, i):
    return sorted(int(j) for j in np.where(np.logical_and(graph[:, i] != 0, graph[i, :] == 0))[0])


INVALID_NEW = {
    # kind -> (builder of (graph, data) from valid ones, accepted exception class names)
    "graph_list": (lambda g, d: (g.tolist(), d), ("TypeError",)),
    "graph_1d": (lambda g, d: (g.ravel().copy(), d), ("ValueError", "TypeError")),
    "graph_3d": (lambda g, d: (g.reshape((1,) + g.shape).copy(), d), ("ValueError", "TypeError")),
    "graph_cyclic": (None, ("ValueError",)),
    "graph_cyclic_negative_weights": (None, ("ValueError",)),
    "graph_cyclic_cancelling_weights": (None, ("ValueError",)),
    "data_tuple": (lambda g, d: (g, tuple(d)), ("TypeError",)),
    "data_ndarray": (lambda g, d: (g, d[0]), ("TypeError",)),
    "data_elem_list": (lambda g, d: (g, [d[0].tolist()] + d[1:]), ("TypeError",)),
    "data_elem_1d": (lambda g, d: (g, d[:-1] + [d[-1][:, 0].copy()]), ("ValueError", "TypeError")),
    "data_elem_3d": (lambda g, d: (g, [d[0].reshape((1,) + d[0].shape).copy()] + d[1:]), ("ValueError", "TypeError")),
    "data_wrong_columns": (lambda g, d: (g, d[:-1] + [np.hstack([d[-1], d[-1][:, :1]])]), ("ValueError",)),
}

INVALID_N = {
    # a numpy integer is either rejected like any non-int (TypeError, the pinned behaviour) or treated as the int it is
    "n_numpy_integer": (lambda e: np.int64(3), ("TypeError", "OK")),
    "n_float": (lambda e: 3.0, ("TypeError",)),
    "n_str": (lambda e: "3", ("TypeError",)),
    "n_tuple": (lambda e: (3,) * e, ("TypeError",)),
    "n_list_float": (lambda e: [2.0] * e, ("TypeError",)),
    "n_zero": (lambda e: 0, ("ValueError",)),
    "n_negative": (lambda e: -2, ("ValueError",)),
    "n_list_zero": (lambda e: [0] * e, ("ValueError",)),
    "n_list_negative": (lambda e: [3] * (e - 1) + [-1], ("ValueError",)),
    "n_list_too_long": (lambda e: [3] * (e + 1), ("ValueError",)),
    "n_list_too_short": (lambda e: [3] * (e - 1), ("ValueError",)),
}


def cyclic_graph(g, weights=(1, 1, 1)):
    p = len(g)
    c = np.zeros(g.shape, dtype=(g.dtype if weights == (1, 1, 1) else float))
    if weights != (1, 1, 1):
        if p >= 3:
            c[0, 1], c[1, 2], c[2, 0] = weights
        elif p == 2:
            c[0, 1], c[1, 0] = weights[0], -abs(weights[0])
        else:
            c[0, 0] = -1.0
        return c
    if p >= 3:
        c[0, 1] = c[1, 2] = c[2, 0] = 1
    elif p == 2:
        c[0, 1] = c[1, 0] = 1
    else:
        c[0, 0] = 1
    return c


def h_net_new(w, st, rec):
    S = w.sempler
    graph = dec(rec["graph"])
    data = [dec(d) for d in rec["data"]]
    if rec.get("views"):
        # the caller passes non-contiguous views into larger arrays it owns
        vs = []
        for d in data:
            base = np.zeros((2 * d.shape[0], 2 * d.shape[1]), dtype=d.dtype)
            base[::2, ::2] = d
            vs.append(base[::2, ::2])
        data = vs
        w.probes["data.non_contiguous_views"] += 1
    for d in data:
        if isinstance(d, np.ndarray):
            w.probes["data.dtype:" + d.dtype.str] += 1
            if d.ndim == 2 and d.flags.f_contiguous and not d.flags.c_contiguous:
                w.probes["data.fortran_order"] += 1
    same = rec.get("same_arrays_as")
    if same:
        # the caller builds this network from the very array objects it built an earlier one from (having worked on
        # them in place since): the literal data of this record is what those arrays hold NOW
        held = st.bufs.get(same + ".data")
        if not isinstance(held, list) or not all(isinstance(d, np.ndarray) for d in held):
            raise Skip()
        data = held
        rec = dict(rec, data=[enc(np.array(d, copy=True)) for d in held])
        w.probes["construction.from_the_array_objects_of_an_earlier_network"] += 1
    pgraph, pdata = dec(rec["graph"]), [dec(d) for d in rec["data"]]       # the checker's private copy
    if rec.get("shared_upstream"):
        w.probes["data.environments_share_upstream_columns"] += 1
    if rec.get("retry"):
        w.probes["construction.retried_after_a_failed_attempt"] += 1
    kind = rec.get("invalid")
    site = "DRFNet.__init__"
    if kind:
        if kind == "graph_cyclic":
            graph = cyclic_graph(graph)
        elif kind == "graph_cyclic_negative_weights":
            graph = cyclic_graph(graph, (-1.0, -0.5, -2.0))
        elif kind == "graph_cyclic_cancelling_weights":
            graph = cyclic_graph(graph, (1.0, 1.0, -2.0))
        else:
            graph, data = INVALID_NEW[kind][0](graph, data)
    pf = rec.get("peer_fault")
    if pf:
        peer().arm(pf[0], pf[1])
    fired0 = peer().fired
    log0 = len(peer().log)
    pre = (digest(graph), digest(data))
    out = w.call(lambda: S.DRFNet(graph, data, verbose=bool(rec.get("verbose"))), arm=rec.get("arm"))
    post = (digest(graph), digest(data))
    peer().disarm()
    failed_peer = peer().fired > fired0
    if failed_peer:
        w.faults["peer.error"] += 1
        w.faults["peer.error:fit"] += 1
    if rec.get("arm") is not None and out[0] == "exc" and "injected by simulator" in str(out[1]):
        w.probes["construction_died_in_a_numpy_call"] += 1
        failed_peer = True
    w.apis[site] += 1
    if rec.get("verbose"):
        w.probes["verbose"] += 1
    if pre != post:
        w.violate("argument_modified", site, {"which": [i for i in (0, 1) if pre[i] != post[i]]})
    if kind:
        w.faults["call.invalid"] += 1
        w.probes["invalid:" + kind] += 1
        check_contract(w, site, kind, INVALID_NEW[kind][1], out)
        return outcome_digest(*out), out
    if out[0] == "exc":
        if not failed_peer:
            w.violate("exception_contract", site + ":valid_arguments",
                      {"raised": type(out[1]).__name__, "msg": str(out[1])[:200]})
        else:
            w.probes["peer_fault.fit"] += 1
        return outcome_digest(*out), out
    net = out[1]
    p = pgraph.shape[1]
    pa = [parents(pgraph, i) for i in range(p)]
    uniq = [all(len(set(d[:, i].tolist())) == len(d) for i in range(p)) for d in pdata]
    st.nets[rec["id"]] = {"obj": net, "graph": pgraph, "data": pdata, "p": p, "e": len(pdata),
                          "Ns": [len(d) for d in pdata], "pa": pa, "unique": uniq,
                          "sources": [i for i in range(p) if not pa[i]], "scribbled": False,
                          "spec": {"graph": rec["graph"], "data": rec["data"]}, "log0": log0, "nsamples": 0,
                          "fmask": 0, "fault_during_fit": failed_peer}
    st.bufs[rec["id"] + ".graph"] = graph
    st.bufs[rec["id"] + ".data"] = data
    if any_alias(net, [graph] + data):
        w.violate("data_not_copied", site, {"what": "network storage shares memory with the caller's graph or data"})
    return "ok:net", out


def any_alias(obj, arrs):
    mine = arrays_of(obj)
    for a in mine:
        if a.size == 0 or a.dtype == object:
            continue
        for b in arrs:
            if isinstance(b, np.ndarray) and b.size and np.shares_memory(a, b):
                return True
    return False


def check_contract(w, site, kind, accepted, out):
    if out[0] == "ok" and "OK" in accepted:
        return
    if out[0] == "ok":
        w.violate("exception_contract", site + ":" + kind, {"expected": list(accepted), "got": "no exception"})
    elif type(out[1]).__name__ not in accepted:
        w.violate("exception_contract", site + ":" + kind,
                  {"expected": list(accepted), "got": type(out[1]).__name__, "msg": str(out[1])[:200]})


def expected_rows(net, n):
    if n is None:
        return list(net["Ns"])
    if isinstance(n, int):
        return [n] * net["e"]
    return list(n)


def forest_identity(net, fitmsg):
    """(variable, environment) pairs whose documented training set equals what this forest was fitted on."""
    _, fid, X, Y, params = fitmsg
    ids = []
    for k, d in enumerate(net["data"]):
        if len(d) != len(Y):
            continue
        for i in range(net["p"]):
            pa = net["pa"][i]
            if not pa or X.shape[1] != len(pa) or Y.shape[1] != 1:
                continue
            want = np.hstack([d[:, pa], d[:, [i]]])
            got = np.hstack([X, Y])
            if np.array_equal(want, got):
                ids.append((i, k))
            else:
                a = want[np.lexsort(want.T[::-1])]
                b = got[np.lexsort(got.T[::-1])]
                if np.array_equal(a, b):
                    ids.append((i, k))
    return ids


class WeightsFollowed:
    """Oracle 4c.  Every non-source value is drawn from the training responses with the probabilities the forest
    returned for that row.  Over all rows of one sample, for a few sets of candidates defined by the weights alone
    (the rows whose weight is at most theta * the largest weight of the row, theta in GRID; and the rows of largest
    weight), the number of draws that fell into the set is compared with its expectation.  Two tests, both with a
    false-alarm probability below 2**-64 under a correct implementation (union bound over the sets included):
    (a) no draw at all from a set although prod(1 - mass) < 2**-68; (b) Azuma-Hoeffding: |X - E| >= t with
    2 * exp(-2 t**2 / n) < 2**-68 / 12.  A value that occurs both inside and outside the set counts as either."""
    GRID = (0.5, 0.1, 1e-2, 1e-3, 1e-4)

    def __init__(self):
        k = len(self.GRID) + 1
        self.n = [0] * k
        self.E = [0.0] * k
        self.xmin = [0] * k
        self.xmax = [0] * k
        self.lognone = [0.0] * k
        self.checkable = False

    def add(self, wq, ycol, val):
        wq = np.asarray(wq, dtype=float)
        pos = wq > 0
        tot = float(wq[pos].sum())
        if not tot > 0 or not np.isfinite(tot):
            return
        mx = float(wq.max())
        hit = pos & (ycol == val)
        for s, th in enumerate(self.GRID + (None,)):
            inset = (wq == mx) if th is None else (pos & (wq <= th * mx))
            mass = float(wq[inset].sum()) / tot
            if not 0.0 < mass < 1.0:
                continue
            self.n[s] += 1
            self.E[s] += mass
            self.lognone[s] += math.log1p(-mass)
            possibly = bool((hit & inset).any())
            if possibly:
                self.xmax[s] += 1
                if not bool((hit & ~inset).any()):
                    self.xmin[s] += 1

    def verdicts(self):
        out = []
        for s, th in enumerate(self.GRID + (None,)):
            n = self.n[s]
            if n == 0:
                continue
            name = "the rows of largest weight" if th is None else \
                "the rows whose weight is at most %g times the largest weight of their row" % th
            t = math.sqrt(n * 23.8)
            if self.lognone[s] < -68 * math.log(2) or self.E[s] - t > 0 or self.E[s] + t < n:
                self.checkable = True
            if self.xmax[s] == 0 and self.lognone[s] < -68 * math.log(2):
                out.append({"what": "the draws do not follow the weights returned by the forest: no value was ever "
                                    "drawn from " + name, "rows": n, "expected_draws": round(self.E[s], 2)})
            elif self.xmax[s] < self.E[s] - t or self.xmin[s] > self.E[s] + t:
                out.append({"what": "the draws do not follow the weights returned by the forest: frequency of " + name,
                            "rows": n, "expected_draws": round(self.E[s], 2),
                            "observed_between": [self.xmin[s], self.xmax[s]], "tolerance": round(t, 2)})
        return out[:1]


def check_sample(w, st, nid, net, rec, S, msgs):
    """Oracles 1-4 for one returned sample, against the private copy and the peer's log.
    Returns the list of (cls, site, detail) found."""
    found = []
    site = "DRFNet.sample"
    p, e = net["p"], net["e"]
    rows = expected_rows(net, rec.get("n"))
    # 1. shape
    if not isinstance(S, list) or len(S) != e:
        return [("shape", site, {"what": "not a list with one array per environment",
                                 "got": type(S).__name__, "len": len(S) if hasattr(S, "__len__") else None})]
    for k in range(e):
        a = S[k]
        if not isinstance(a, np.ndarray) or a.ndim != 2 or a.shape != (rows[k], p):
            found.append(("shape", site, {"env": k, "expected": [rows[k], p],
                                          "got": list(getattr(a, "shape", ())), "dtype": str(getattr(a, "dtype", None))}))
    if found:
        return found
    # 2. support
    for k in range(e):
        for i in range(p):
            sup = set(net["data"][k][:, i].tolist())
            bad = [v for v in S[k][:, i].tolist() if v not in sup]
            if bad:
                found.append(("value_outside_support", site, {"env": k, "var": i, "n_bad": len(bad), "example": bad[0],
                                                              "is_source": not net["pa"][i]}))
    if found:
        return found
    # 3. sources are resampled independently of one another
    for k in range(e):
        if not net["unique"][k]:
            continue
        N = net["Ns"][k]
        nk = rows[k]
        srcs = net["sources"]
        if len(srcs) >= 2:
            lookup = [{v: r for r, v in enumerate(net["data"][k][:, i].tolist())} for i in range(p)]
            idx = {i: [lookup[i][v] for v in S[k][:, i].tolist()] for i in srcs}
            strong = N >= 2 and nk * math.log2(N) >= 64
            if strong:
                w.probes["sources>=2.independence_checkable"] += 1
                if rec.get("seed") is not None:
                    w.probes["sources>=2.independence_checkable.seeded"] += 1
                for a in range(len(srcs)):
                    for b in range(a + 1, len(srcs)):
                        if idx[srcs[a]] == idx[srcs[b]]:
                            found.append(("source_indices_identical", site,
                                          {"env": k, "sources": [srcs[a], srcs[b]], "n": nk, "N": N,
                                           "seed": rec.get("seed")}))
            # 3b. ... nor determined by one another: whenever source a repeats a row, source b repeats its row too
            #     (both ways).  Each coincidence has probability 1/N under independent resampling; asserted only
            #     when the repeats make the whole pattern less likely than 2**-64.
            if N >= 2 and nk >= 2:
                for a in range(len(srcs)):
                    for b in range(a + 1, len(srcs)):
                      for ia, ib in ((idx[srcs[a]], idx[srcs[b]]), (idx[srcs[b]], idx[srcs[a]])):
                        repeats = len(ia) - len(set(ia))
                        if repeats * math.log2(N) < 64:
                            continue
                        w.probes["sources>=2.functional_dependence_checkable"] += 1
                        first, functional = {}, True
                        for x, y in zip(ia, ib):
                            if first.setdefault(x, y) != y:
                                functional = False
                                break
                        if functional and ia != ib:
                            found.append(("source_indices_identical", site,
                                          {"env": k, "sources": [srcs[a], srcs[b]], "n": nk, "N": N, "repeats": repeats,
                                           "what": "the row drawn for one source determines the row drawn for the other",
                                           "seed": rec.get("seed")}))
    # 4. non-sources follow the protocol
    fits = {m[1]: m for m in peer().log if m[0] == "fit"}
    ident = {}
    preds = [m for m in msgs if m[0] == "predict"]
    for m in preds:
        fid = m[1]
        if fid not in ident:
            ident[fid] = forest_identity(net, fits[fid]) if fid in fits else []
            if not ident[fid]:
                other = any(forest_identity(o, fits[fid]) for oid, o in st.nets.items() if o is not net) \
                    if fid in fits else False
                found.append(("fit_protocol", "DRFNet.__init__",
                              {"forest": fid, "what": "forest used for prediction was not fitted on "
                               "(parents in increasing index order, variable) of one environment of this network",
                               "fitted_for_another_network": bool(other)}))
    positions = {}      # (env, var) -> for every row, which of the weighted candidates was drawn
    groups = {}
    follow = WeightsFollowed()
    for k in range(e):
        for i in range(p):
            pa = net["pa"][i]
            if not pa:
                continue
            w.probes["non_source.checked"] += 1
            if len(pa) >= 2:
                w.probes["non_source.parents>=2"] += 1
            cand = [m for m in preds if (i, k) in ident.get(m[1], ())]
            if not cand and rows[k] > 0:
                found.append(("predict_protocol", site, {"env": k, "var": i, "what": "no predict message to the forest "
                                                         "fitted for this variable and environment"}))
                continue
            index = []
            for m in cand:
                Q = m[2]
                if Q.shape[1] != len(pa):
                    continue
                rowmap = {}
                for q, row in enumerate(Q.tolist()):
                    rowmap.setdefault(tuple(row), []).append(q)
                index.append((m, rowmap, {}))
            for r in range(rows[k]):
                target = tuple(S[k][r, pa].tolist())
                val = float(S[k][r, i])
                ok = False
                seen_row = False
                for m, rowmap, allowed in index:
                    for q in rowmap.get(target, ()):
                        seen_row = True
                        if q not in allowed:
                            allowed[q] = set(fits[m[1]][3][:, 0][m[3][q] > 0].tolist())
                        if val in allowed[q]:
                            ok = True
                            follow.add(m[3][q], fits[m[1]][3][:, 0], val)
                            if peer().uniform and net["unique"][k]:
                                candidates = np.where(m[3][q] > 0)[0]
                                Ycol = fits[m[1]][3][:, 0]
                                hit = [c for c, j in enumerate(candidates) if Ycol[j] == val]
                                positions.setdefault((k, i), []).append((len(candidates), hit[0] if hit else -1))
                                groups.setdefault((k, i), {}).setdefault(target, []).append(
                                    (len(candidates), hit[0] if hit else -1))
                            break
                    if ok:
                        break
                if not ok:
                    found.append(("predict_protocol", site,
                                  {"env": k, "var": i, "row": r,
                                   "what": ("value is not a training response with positive weight for the final "
                                            "synthetic parent values") if seen_row else
                                   "the forest was never queried with the final synthetic parent values of this row"}))
                    break
    w.last_positions = positions
    # 4e. rows are independent of one another given their parents: among the rows of one sample that have the very
    #     same parent values (the same weight row, equal weights on kk candidates) the drawn positions are an iid
    #     sequence; take disjoint pairs of neighbours within each such group: a pair is a descent (an ascent) with
    #     probability (1 - 1/kk) / 2 each, so "never a descent" (rows come out sorted by data row) or "never an
    #     ascent" among M pairs has probability (1 - (1 - 1/kk) / 2) ** M
    for (k, i), byrow in sorted(groups.items()):
        desc = asc = 0
        bits = 0.0
        for target, seq in byrow.items():
            if len({c for c, _ in seq}) != 1 or seq[0][0] < 2 or any(h < 0 for _, h in seq):
                continue
            kk = seq[0][0]
            for j in range(0, len(seq) - 1, 2):
                a_, b_ = seq[j][1], seq[j + 1][1]
                desc += a_ > b_
                asc += a_ < b_
                bits += -math.log2(1.0 - (1.0 - 1.0 / kk) / 2.0)
        if bits >= 64:
            w.probes["rows_with_equal_parents.order_checkable"] += 1
            if desc == 0 or asc == 0:
                found.append(("non_source_draws_identical", site,
                              {"what": "rows with the same parent values are not drawn independently of one another: "
                                       "their draws come out %s by training row" % ("sorted" if desc == 0 else "reverse-sorted"),
                               "env": k, "var": i, "bits": round(bits, 1)}))
    # 4c. the draws follow the weights the forest returned (not merely their support)
    for what in follow.verdicts():
        found.append(("predict_protocol", site, what))
    if follow.checkable:
        w.probes["non_source.weights_followed_checkable"] += 1
    # 4b. the draws of two non-source variables are independent of one another (given their parents): with
    #     equal weights on kk candidates, identical candidate positions in every row have probability kk**-n
    for k in range(e):
        nodes = [i for i in range(p) if len(positions.get((k, i), ())) == rows[k] and rows[k] > 0]
        for a in range(len(nodes)):
            for b in range(a + 1, len(nodes)):
                pa_, pb_ = positions[(k, nodes[a])], positions[(k, nodes[b])]
                kk = {c for c, _ in pa_} | {c for c, _ in pb_}
                if len(kk) != 1 or min(kk) < 2 or any(h < 0 for _, h in pa_ + pb_):
                    continue
                kk = kk.pop()
                if rows[k] * math.log2(kk) < 64:
                    continue
                w.probes["non_sources>=2.draw_independence_checkable"] += 1
                if [h for _, h in pa_] == [h for _, h in pb_]:
                    found.append(("non_source_draws_identical", site,
                                  {"env": k, "vars": [nodes[a], nodes[b]], "n": rows[k], "candidates": kk,
                                   "seed": rec.get("seed")}))
    return found


def h_net_sample(w, st, rec):
    net = st.nets.get(rec["net"])
    if net is None:
        raise Skip()
    site = "DRFNet.sample"
    obj = net["obj"]
    kind = rec.get("invalid")
    n = rec.get("n")
    if kind:
        n = INVALID_N[kind][0](net["e"])
    elif isinstance(n, list):
        n = list(n)
    pf = rec.get("peer_fault")
    if pf:
        peer().arm(pf[0], pf[1])
    fired0 = peer().fired
    log0 = len(peer().log)
    npre = digest(n)
    seed = G.seed_object(w, rec.get("seed"))

    def mkseed():        # (a Generator given as seed is made afresh for every call)
        return G.seed_object(w, rec.get("seed"))
    if rec.get("posseed"):
        w.probes["seed_passed_positionally"] += 1
        out = w.call(lambda: obj.sample(n, mkseed()), arm=rec.get("arm"))
    else:
        out = w.call(lambda: obj.sample(n, random_state=mkseed()), arm=rec.get("arm"))
    alloc_calls = w.last_seam_calls.get("pd.DataFrame", 0)
    np_calls = w.last_seam_calls.get("np.*", 0)
    if rec.get("arm") is not None and rec["arm"][0] == "np.*" and out[0] == "exc" and "injected by simulator" in str(out[1]):
        w.faults["seam.raise:np.*"] += 1
    alloc_failed = rec.get("arm") is not None and out[0] == "exc" and isinstance(out[1], MemoryError)
    if alloc_failed:
        w.faults["alloc.fail"] += 1
        net["fmask"] |= 8
    peer().disarm()
    failed_peer = (peer().fired > fired0) or rec.get("arm") is not None
    msgs = peer().log[log0:]
    w.apis[site] += 1
    net["nsamples"] += 1
    if digest(n) != npre:
        w.violate("argument_modified", site, {"which": "n"})
    if peer().fired > fired0:
        w.faults["peer.error"] += 1
        w.faults["peer.error:predict"] += 1
        net["fmask"] |= 2
    if kind:
        w.faults["call.invalid"] += 1
        w.probes["invalid:" + kind] += 1
        net["fmask"] |= 4
        check_contract(w, site, kind, INVALID_N[kind][1], out)
        if out[0] == "ok" and "OK" in INVALID_N[kind][1]:
            for cls, s2, detail in check_sample(w, st, rec["net"], net, dict(rec, n=int(n)), out[1], msgs):
                w.violate(cls, s2, dict(detail, n_given_as=kind))
        return outcome_digest(*out), out
    if out[0] == "exc":
        if failed_peer:
            w.probes["peer_fault.predict.raised"] += 1
        elif isinstance(out[1], ValueError) and G.seed_value(rec.get("seed")) is not None \
                and G.seed_value(rec.get("seed")) >= 2 ** 32:
            # np.random.seed, the library's own seeding idiom, rejects seeds >= 2**32: legitimate, if consistent
            w.probes["seed>=2**32.rejected"] += 1
        else:
            w.violate("exception_contract", site + ":valid_arguments",
                      {"raised": type(out[1]).__name__, "msg": str(out[1])[:200], "n": rec.get("n")})
        return outcome_digest(*out), out
    S = out[1]
    found = check_sample(w, st, rec["net"], net, dict(rec, n=n), S, msgs)
    note_probes(w, st, net, rec, msgs)
    for cls, s, detail in found:
        if failed_peer:
            cls, detail = "wrong_data_after_peer_fault", dict(detail, underlying=cls)
        elif net["scribbled"] and cls in ("shape", "value_outside_support", "fit_protocol", "predict_protocol"):
            cls, detail, s = "data_not_copied", dict(detail, underlying=cls), "DRFNet.__init__"
        w.violate(cls, s, detail)
    if failed_peer:
        w.probes["peer_fault.predict.returned"] += 1
    if rec.get("seed") is None and not failed_peer and not found:
        # 4d. two immediately consecutive unseeded samples of one network: the forest draws of the second do not
        #     repeat those of the first row by row (equal weights on kk candidates: probability kk ** -rows)
        now = dict(getattr(w, "last_positions", {}) or {})
        prev = net.get("prev_unseeded")
        if prev and prev["step"] == w.step - 1:
            for key, b_ in sorted(now.items()):
                a_ = prev["pos"].get(key)
                kk = {c for c, _ in (a_ or [])} | {c for c, _ in b_}
                if not a_ or len(a_) != len(b_) or len(kk) != 1 or min(kk) < 2 or any(h < 0 for _, h in a_ + b_) \
                        or len(a_) * math.log2(min(kk)) < 64:
                    continue
                w.probes["consecutive_unseeded_samples.draws_compared"] += 1
                if [h for _, h in a_] == [h for _, h in b_]:
                    w.violate("non_source_draws_identical", site,
                              {"what": "the forest draws of two consecutive unseeded samples coincide row by row",
                               "env": key[0], "var": key[1], "rows": len(a_), "candidates": min(kk)})
                    break
        net["prev_unseeded"] = {"step": w.step, "pos": now}
    # 5. seeded reproducibility
    #    (also for a call during which the peer failed and which RETURNED all the same - a wrapper that retries the
    #     failed request: the caller cannot see the transient error, so what it gets for this seed must be what the
    #     seed gives; a retry that re-establishes the seeded state before each attempt passes)
    if rec.get("seed") is not None and not found:
        if failed_peer:
            w.probes["peer_fault.predict.returned.seeded_result_compared"] += 1
        key = jkey({"spec": net["spec"], "peer": st.peer_cfg, "n": rec.get("n"), "seed": rec["seed"]})
        d = digest(S)
        f = st.first.get(key)
        if f is None:
            st.first[key] = {"d": d, "step": w.step, "rng": w.pre_rng, "scribbled": net["scribbled"],
                             "between": set()}
            st.oblig[key] = {"ops": [dict({"op": "peer.config"}, **st.peer_cfg),
                                     {"op": "net.new", "id": "_", "graph": net["spec"]["graph"],
                                      "data": net["spec"]["data"]},
                                     {"op": "net.sample", "net": "_", "n": rec.get("n"), "seed": rec["seed"]}],
                             "expect": "ok:" + d, "step": w.step, "site": site, "cls": "seeded_sample_differs",
                             "variant": "pristine"}
        else:
            differ = f["rng"] != w.pre_rng
            nontrivial = differ and bool(f["between"] & {"rng", "lib", "sample"})
            if nontrivial:
                w.probes["seeded_pair.nontrivial"] += 1
                if G.seed_value(rec["seed"]) == 0:
                    w.probes["seeded_pair.seed0"] += 1
                if G.seed_is_numpy(rec["seed"]):
                    w.probes["seeded_pair.numpy_integer_seed"] += 1
                if G.seed_is_object(rec["seed"]):
                    w.probes["seeded_pair.seed_sequence_object_reused"] += 1
                if "rng.reseed" in f["between"]:
                    w.probes["seeded_pair.sep.global_reseed"] += 1
                if peer().k >= 2 and len(net["sources"]) < net["p"]:
                    w.probes["seeded_pair.k>=2.non_source"] += 1
            if f["d"] != d:
                if net["scribbled"] and not f["scribbled"]:
                    w.violate("data_not_copied", "DRFNet.__init__",
                              {"what": "seeded sample changed after the caller modified its graph / data",
                               "first_step": f["step"]})
                else:
                    w.violate("seeded_sample_differs", site,
                              {"first_step": f["step"], "seed": rec["seed"], "n": rec.get("n"),
                               "global_rng_prestates_differ": differ,
                               "peer_failed_during_this_call": bool(failed_peer)})
    if rec.get("burst") and not failed_peer and not found:
        # a long session in one step: the same sample call many times in a row
        pos0 = dict(getattr(w, "last_positions", {}) or {})
        same_bits = {key: 0.0 for key in pos0}       # oracle 4d: -log2 P(all repetitions draw like the first)
        for b in range(int(rec["burst"]) - 1):
            l0 = len(peer().log)
            ob = w.call(lambda: obj.sample(n, random_state=mkseed()))
            if ob[0] != "ok":
                w.violate("exception_contract", site + ":valid_arguments",
                          {"raised": type(ob[1]).__name__, "how": "repetition %d of a burst" % (b + 2)})
                break
            if rec.get("seed") is not None and digest(ob[1]) != digest(S):
                w.violate("seeded_sample_differs", site, {"how": "repetition %d of a burst of %d identical seeded calls"
                                                          % (b + 2, rec["burst"]), "seed": rec["seed"]})
                break
            if b == int(rec["burst"]) - 2 or rec.get("seed") is None:
                bad = check_sample(w, st, rec["net"], net, dict(rec, n=n), ob[1], peer().log[l0:])
                for cls, s2, detail in bad:
                    w.violate(cls, s2, dict(detail, how="repetition %d of a burst" % (b + 2)))
                if bad:
                    break
                if rec.get("seed") is None:
                    # 4d. consecutive unseeded samples: the forest draws of one call do not repeat those of the call
                    #     before (equal weights on kk candidates: identical positions in every row of every
                    #     repetition have probability kk ** -(rows * repetitions))
                    now = getattr(w, "last_positions", {}) or {}
                    for key in list(same_bits):
                        a_, b_ = pos0.get(key), now.get(key)
                        kk = {c for c, _ in (a_ or [])} | {c for c, _ in (b_ or [])}
                        if not a_ or not b_ or len(a_) != len(b_) or len(kk) != 1 or min(kk) < 2 or \
                                any(h < 0 for _, h in a_ + b_) or [h for _, h in a_] != [h for _, h in b_]:
                            del same_bits[key]
                        else:
                            same_bits[key] += len(a_) * math.log2(min(kk))
                    if same_bits:
                        w.probes["consecutive_unseeded_samples.draws_compared"] += 1
                    worst = max(same_bits.items(), key=lambda kv: kv[1], default=None)
                    if worst and worst[1] >= 64:
                        w.violate("non_source_draws_identical", site,
                                  {"what": "the forest draws of %d consecutive unseeded samples repeat those of the first, "
                                           "row by row" % (b + 2), "env": worst[0][0], "var": worst[0][1],
                                   "bits": round(worst[1], 1)})
                        break
        w.probes["burst.samples_on_one_network"] += 1
    if rec.get("keep"):
        st.results[rec["keep"]] = S
    # systematic single-fault sweep over the predict messages of this call (oracle 8)
    if rec.get("sweep") and not pf and not failed_peer:
        M = sum(1 for m in msgs if m[0] == "predict")
        for k in range(1, M + 1):
            peer().arm("predict", k)
            f0 = peer().fired
            l0 = len(peer().log)
            o2 = w.call(lambda: obj.sample(n, random_state=mkseed()))
            peer().disarm()
            w.probes["sweep.peer_fault_positions"] += 1
            if peer().fired > f0:
                w.faults["peer.error"] += 1
                w.faults["peer.error:predict"] += 1
            if o2[0] == "ok":
                for cls, s2, detail in check_sample(w, st, rec["net"], net, dict(rec, n=n), o2[1], peer().log[l0:]):
                    w.violate("wrong_data_after_peer_fault", s2, dict(detail, underlying=cls, failed_message=k))
        # ... and over the data-frame constructions of this call (failing allocations)
        for k in range(1, min(alloc_calls, 10) + 1):
            l0 = len(peer().log)
            o2 = w.call(lambda: obj.sample(n, random_state=mkseed()), arm=["pd.DataFrame", k, "MemoryError"])
            w.probes["sweep.alloc_fault_positions"] += 1
            if o2[0] == "exc" and isinstance(o2[1], MemoryError):
                w.faults["alloc.fail"] += 1
            if o2[0] == "ok":
                for cls, s2, detail in check_sample(w, st, rec["net"], net, dict(rec, n=n), o2[1], peer().log[l0:]):
                    w.violate("wrong_data_after_peer_fault", s2, dict(detail, underlying=cls, failed_allocation=k))
        # ... and over the numpy calls the library makes during this call (allocation failure / Ctrl-C, seam np.*)
        npcalls = np_calls
        pos = list(range(1, npcalls + 1)) if npcalls <= 8 else sorted({1 + (i * (npcalls - 1)) // 7 for i in range(8)})
        for k in pos:
            l0 = len(peer().log)
            o2 = w.call(lambda: obj.sample(n, random_state=mkseed()),
                        arm=["np.*", k, "MemoryError" if k % 2 else "KeyboardInterrupt"])
            w.probes["sweep.np_star_positions"] += 1
            if o2[0] == "exc" and "injected by simulator" in str(o2[1]):
                w.faults["seam.raise:np.*"] += 1
            if o2[0] == "ok":
                for cls, s2, detail in check_sample(w, st, rec["net"], net, dict(rec, n=n), o2[1], peer().log[l0:]):
                    w.violate("wrong_data_after_peer_fault", s2, dict(detail, underlying=cls, failed_numpy_call=k))
        if (M or alloc_calls or npcalls) and rec.get("seed") is not None:
            o3 = w.call(lambda: obj.sample(n, random_state=mkseed()))
            if o3[0] != "ok" or digest(o3[1]) != digest(S):
                w.violate("seeded_sample_differs", site, {"what": "network not as usable as before after peer failures",
                                                          "seed": rec["seed"]})
    return "ok:" + digest(S), out


def note_probes(w, st, net, rec, msgs):
    if len(set(net["Ns"])) == 1 and net["e"] >= 2:
        w.probes["equal_sized_environments"] += 1
    if G.seed_value(rec.get("seed")) == 0:
        w.probes["seed0"] += 1
    n = rec.get("n")
    w.probes["n:" + ("none" if n is None else "int" if isinstance(n, int) else "list")] += 1
    if peer().k >= 2 and len(net["sources"]) < net["p"]:
        w.probes["peer.k>=2.non_source"] += 1
    if net["scribbled"]:
        w.probes["sample_after_scribble_input"] += 1


def h_scribble(w, st, rec):
    tgt = rec["target"]
    done = False
    if tgt in st.results:
        res = st.results[tgt]
        for a in (res if isinstance(res, (list, tuple)) else [res]):
            if isinstance(a, np.ndarray) and a.size and a.flags.writeable and a.dtype.kind in "iuf":
                a += 1000
                done = True
        if done:
            w.faults["caller.scribble_output"] += 1
    elif tgt in st.bufs:
        b = st.bufs[tgt]
        nid = tgt.split(".")[0]
        if isinstance(b, list):
            for a in b:
                if isinstance(a, np.ndarray) and a.size:
                    a += 1000
                    done = True
        elif isinstance(b, np.ndarray) and b.size:
            if rec.get("how") == "transpose_edges":
                b[...] = b.T.copy()
            else:
                b[...] = 0
            done = True
        if done:
            w.faults["caller.scribble_input"] += 1
            if nid in st.nets:
                st.nets[nid]["scribbled"] = True
                st.nets[nid]["fmask"] |= 1
    else:
        raise Skip()
    return "ok:-", None


def h_lib_call(w, st, rec):
    out = w.call(invoke(w, rec["call"]))
    w.faults["lib.call"] += 1
    return outcome_digest(*out), out


def h_net_drop(w, st, rec):
    """The application lets go of a network (and of what it got from it); the garbage collector runs."""
    import gc
    net = st.nets.pop(rec["net"], None)
    if net is None:
        raise Skip()
    for k in [k for k in st.results]:
        if rec.get("results_too"):
            del st.results[k]
    net.clear()
    del net
    gc.collect()
    w.probes["net.dropped"] += 1
    w.faults["gc"] += 1
    return "ok:-", None


def h_net_copy(w, st, rec):
    """The application keeps working with an equal copy of a network (copy.deepcopy, or a pickle round trip: what a
    worker process receives).  The copy stands for the same (graph, data): every oracle applies to its samples.  A
    network that cannot be copied is not a violation (nothing documents that it can): the record is skipped."""
    import pickle
    src = st.nets.get(rec["net"])
    if src is None or rec["id"] in st.nets:
        raise Skip()
    try:
        obj = copy.deepcopy(src["obj"]) if rec.get("how") != "pickle" else pickle.loads(pickle.dumps(src["obj"]))
    except Exception:
        raise Skip()
    new = dict(src, obj=obj, nsamples=0)
    new.pop("prev_unseeded", None)
    st.nets[rec["id"]] = new
    w.probes["net.used_through_a_copy:" + rec.get("how", "deepcopy")] += 1
    return "ok:-", None


HANDLERS = {"peer.config": h_peer_config, "net.new": h_net_new, "net.sample": h_net_sample,
            "fault.scribble": h_scribble, "lib.call": h_lib_call, "net.drop": h_net_drop, "net.copy": h_net_copy}


def execute(sempler, run_seed, ops, pristine_budget=2):
    import sempler.semi as semi
    w = World(sempler, run_seed, PROP)
    st = State()
    w.st = st
    semi.time = FakeTime()
    peer().reset({})
    for i, rec in enumerate(ops):
        w.step = i
        w.client = rec.get("c", 0)
        op = rec["op"]
        w.pre_rng = w.rng_digest()
        try:
            if op in HANDLERS:
                od, out = HANDLERS[op](w, st, rec)
            elif op in SHARED_OPS:
                od, out = SHARED_OPS[op](w, rec), None
            else:
                raise ValueError("unknown op %r" % op)
        except Skip:
            continue
        w.record(rec, od)
        # what happened between seeded pairs
        tag = {"np.perturb": "rng", "py.random": "stdlib", "entropy.draw": "entropy", "lib.call": "lib",
               "net.sample": "sample", "fault.scribble": "scribble", "gc": "gc", "py.import": "gc"}.get(op)
        if tag:
            for f in st.first.values():
                if f["step"] != i:
                    f["between"].add(tag)
                    if op == "np.perturb" and rec.get("kind") in ("reseed", "bitgen"):
                        f["between"].add("rng.reseed")
        if op == "net.sample" and rec["net"] in st.nets:
            net = st.nets[rec["net"]]
            failed = out[0] == "exc"
            oc = "ok" if not failed else "exc:" + type(out[1]).__name__
            n = rec.get("n")
            st.distinct.add((len(net["sources"]), net["p"] - len(net["sources"]), net["e"],
                             "none" if n is None else "int" if isinstance(n, int) else "list",
                             G.seed_class(rec.get("seed")), peer().k, net["fmask"], rec.get("invalid") or "-", oc,
                             net["p"] > len(net["sources"]) or len(net["sources"]) >= 2))
    w.distinct = st.distinct
    keys = sorted(st.oblig, key=lambda k: st.oblig[k]["step"])
    if pristine_budget is not None and len(keys) > pristine_budget:
        keys = w.streams["pristine"].sample(keys, pristine_budget)
    return w, [st.oblig[k] for k in keys]


def pristine_eval(sempler, ops):
    import sempler.semi as semi
    w = World(sempler, 0, PROP, reference=True)
    st = State()
    semi.time = FakeTime()
    peer().reset({})
    od = None
    for i, rec in enumerate(ops):
        w.step = i
        w.pre_rng = ""
        od, _ = HANDLERS[rec["op"]](w, st, rec)
    return od


def seeded_digests(w):
    return [(e[3], e[4]) for e in w.log if e[2] == "net.sample"]


# ===========================================================================
# generation
# ===========================================================================

def gen_graph(g, p):
    shape = g.choice(["random", "random", "empty", "chain", "collider", "two_sources"])
    W = np.zeros((p, p))
    perm = list(range(p))
    g.shuffle(perm)
    if shape == "random":
        W = G.rand_dag(g, p)
    elif shape == "chain":
        for a in range(p - 1):
            W[perm[a], perm[a + 1]] = 1
    elif shape == "collider" and p >= 3:
        for a in range(p - 1):
            W[perm[a], perm[-1]] = 1
    elif shape == "two_sources" and p >= 3:
        W[perm[0], perm[2]] = 1
        W[perm[1], perm[2]] = 1
        for a in range(3, p):
            if g.random() < 0.5:
                W[perm[g.randrange(a)], perm[a]] = 1
    kind = g.choice(["binary", "binary_int", "signed"])
    if kind == "binary":
        return (W != 0).astype(float)
    if kind == "binary_int":
        return (W != 0).astype(int)
    out = np.zeros((p, p))
    for i in range(p):
        for j in range(p):
            if W[i, j] != 0:
                out[i, j] = G.signed_weight(g) if g.random() < 0.9 else g.choice([1e-13, 3e-9, -1e-9])
    return out


def gen_data(g, p, e, equal_sizes, unique, bigN=False):
    Ns = [g.randint(2, 40) if g.random() < 0.95 else 1 for _ in range(e)]
    if equal_sizes:
        Ns = [g.choice([g.randint(2, 40), g.randint(16, 40)])] * e
    if bigN:
        Ns[g.randrange(e)] = g.choice([120, 200, 300])      # enough rows for a long tail of small weights to carry mass
    forms = ["f8", "f8", "f8", "f8", "i8", "f4", "F", "view"]              # dtype / memory layout of the caller's arrays
    form0 = g.choice(forms)
    mixed = e >= 2 and g.random() < 0.3                                    # environments need not share a dtype
    per_env = [g.choice(forms) if mixed else form0 for _ in range(e)]
    data = []
    for k in range(e):
        N = Ns[k]
        form = per_env[k]
        rows = list(range(N))
        cols = []
        for i in range(p):
            g.shuffle(rows)     # a different row order per column: values are not monotone together
            if unique:
                frac = G.r2(g, 0, 0.4) if form not in ("i8", "f4") else 0
                col = [1000.0 * (k + 1) + 10.0 * rows[r] + i + (G.r2(g, 0, 0.4) if frac else 0) for r in range(N)]
            else:
                col = [float(g.randint(0, 3) + 10 * k) for r in range(N)]
            cols.append(col)
        a = np.array(cols, dtype=float).T.copy().reshape(N, p)
        if form == "i8":
            a = a.astype(np.int64)
        elif form == "f4":
            a = a.astype(np.float32)
        elif form == "F":
            a = np.asfortranarray(a)
        data.append(a)
    return data


def gen_config(g):
    all_faults = ["rng", "lib.call", "caller.scribble_input", "caller.scribble_output", "call.invalid", "peer.error", "gc"]
    faults = [] if g.random() < 0.25 else [f for f in all_faults if g.random() < 0.7]
    big = g.random() < 0.05
    return {"length": g.randint(6, 30) if not big else g.randint(5, 10),
            "pmax": g.randint(1, 6) if not big else g.randint(9, 13), "big": big,
            "nbig": g.random() < 0.04, "bursts": g.random() < 0.08, "nets": g.randint(1, 2) if not big else 1,
            "peer": (lambda kk: {"k": kk, "slack": g.random() < 0.2, "uniform": kk >= 2 and g.random() < 0.5,
                                 # long-tailed weight rows: every other training row keeps a small positive weight
                                 "tail": g.choice([0.2, 0.03, 3e-3, 5e-4, 5e-5]) if g.random() < 0.2 else 0})(
                g.choice([1, 1, 2, 3, 4, 6])),
            "faults": faults, "fault_rate": g.choice([0.1, 0.2, 0.3]), "clients": g.randint(1, 3),
            "seeds": G.seed_alphabet(g)}


def gen_net(g, cfg, nid):
    p = g.randint(1, cfg["pmax"]) if not cfg.get("big") else cfg["pmax"]
    e = g.randint(1, 3)
    graph = gen_graph(g, p)
    data = gen_data(g, p, e, equal_sizes=g.random() < 0.4, unique=g.random() < 0.85,
                    bigN=bool(cfg.get("bigN")) and g.random() < 0.7)
    rec = {"op": "net.new", "id": nid, "graph": enc(graph), "data": [enc(d) for d in data],
           "verbose": g.random() < 0.15}
    if g.random() < 0.1:
        rec["views"] = True
    return rec, {"p": p, "e": e, "Ns": [len(d) for d in data]}


def gen_n(g, meta, cfg=None):
    if cfg is not None and cfg.get("nbig") and g.random() < 0.25:
        # more rows than any batch / cache threshold a wrapper is likely to use
        big = g.choice([300, 512, 1000, 1001, 1002, 1024, 1536, 1537, 2000, 2048])      # round and binary sizes too
        return big if g.random() < 0.5 else [g.randint(1, 20) for _ in range(meta["e"] - 1)] + [big]
    r = g.random()
    if r < 0.35:
        return None
    if r < 0.43:
        # a subsample: just below the number of observations (of one environment, or of each)
        if g.random() < 0.5:
            return max(1, g.choice(meta["Ns"]) - g.randint(1, 3))
        return [max(1, N - g.randint(1, 3)) for N in meta["Ns"]]
    if r < 0.7:
        return g.choice([g.randint(1, 40), g.randint(14, 40)])
    return [g.randint(1, 40) for _ in range(meta["e"])]


def generate(run_seed, deep=False):
    st = Streams(run_seed)
    g, sc = st["gen"], st["sched"]
    cfg = gen_config(g)
    if cfg["peer"].get("tail") and not cfg["peer"]["uniform"] and g.random() < 0.75:
        cfg["nbig"] = True          # long-tailed weights show in frequencies: ask for many rows
        cfg["bigN"] = g.random() < 0.6
    cfg["deep"] = bool(deep) and st["deep"].random() < 0.5
    if bool(deep) and st["deep"].random() < 0.004:
        return cfg, generate_giant(st["deep"], cfg)
    if not deep and st["giantq"].random() < 0.003:        # the quick tier too, one run in about 330
        return cfg, generate_giant(st["giantq"], cfg)
    if cfg["deep"] and not cfg["big"]:      # thorough tier: longer histories, up to three networks
        cfg["length"] = st["deep"].randint(30, 70)
        cfg["nets"] = st["deep"].randint(1, 3)
    ops = [dict({"op": "peer.config", "c": 0}, **cfg["peer"])]
    nets = {}
    faults = cfg["faults"]
    nres = 0
    sigs = []     # seeded sample records to repeat
    for k in range(cfg["nets"]):
        rec, meta = gen_net(g, cfg, "n%d" % (k + 1))
        rec["c"] = sc.randrange(cfg["clients"])
        if "peer.error" in faults and g.random() < cfg["fault_rate"] / 2:
            rec["peer_fault"] = ["fit", g.randint(1, 3)]
        if "call.invalid" in faults and g.random() < cfg["fault_rate"]:
            bad = dict(rec, id="bad%d" % k, invalid=g.choice(sorted(INVALID_NEW)))
            bad.pop("peer_fault", None)
            ops.append(bad)
        ops.append(rec)
        nets[rec["id"]] = meta
    guard = 0
    while len(ops) < cfg["length"] and guard < 600:
        guard += 1
        c = sc.randrange(cfg["clients"])
        r = sc.random()
        nid = sc.choice(sorted(nets))
        meta = nets[nid]
        if r < 0.3:
            rec = {"c": c, "op": "net.sample", "net": nid, "n": gen_n(g, meta, cfg), "seed": g.choice(cfg["seeds"] + [None])}
            if g.random() < 0.5:
                nres += 1
                rec["keep"] = "r%d" % nres
            nn = rec["n"]
            if cfg.get("bursts") and g.random() < 0.25 and not cfg.get("big") and isinstance(nn, int) and nn <= 8:
                rec["burst"] = g.choice([6, 30, 70])
            if "peer.error" in faults and g.random() < cfg["fault_rate"] and not cfg.get("big") and \
                    (nn is None or (isinstance(nn, int) and nn <= 40) or (isinstance(nn, list) and max(nn) <= 40)):
                rec["sweep"] = True
            ops.append(rec)
            if rec["seed"] is not None:
                sigs.append(rec)
        elif r < 0.55 and sigs:
            rec = copy.deepcopy(sc.choice(sigs[-5:]))
            rec["c"] = c
            rec.pop("keep", None)
            if g.random() < 0.25:
                rec["posseed"] = True          # the same call, seed passed positionally
            ops.append(rec)
        elif r < 0.65 and "call.invalid" in faults:
            ops.append({"c": c, "op": "net.sample", "net": nid, "invalid": g.choice(sorted(INVALID_N)),
                        "seed": g.choice(cfg["seeds"] + [None])})
        elif r < 0.72 and "peer.error" in faults:
            rec = {"c": c, "op": "net.sample", "net": nid, "n": gen_n(g, meta), "seed": g.choice(cfg["seeds"] + [None])}
            if g.random() < 0.7:
                rec["peer_fault"] = ["predict", g.randint(1, 4)]
            else:
                rec["arm"] = ["pd.DataFrame", g.randint(1, 4), "MemoryError"]
            ops.append(rec)
        elif r < 0.8 and "caller.scribble_input" in faults:
            ops.append({"c": c, "op": "fault.scribble", "target": nid + g.choice([".graph", ".data"]),
                        "how": g.choice(["zero", "transpose_edges"])})
        elif r < 0.85 and "caller.scribble_output" in faults and nres:
            ops.append({"c": c, "op": "fault.scribble", "target": "r%d" % g.randint(1, nres)})
        elif r < 0.93 and "rng" in faults:
            rr = g.random()
            if rr < 0.4:
                ops.append({"c": c, "op": "np.perturb", "kind": "draw", "dist": g.choice(["normal", "choice", "uniform"]),
                            "n": g.randint(1, 9)})
            elif rr < 0.75:
                ops.append({"c": c, "op": "np.perturb", "kind": "reseed", "seed": G.seed_value(g.choice(cfg["seeds"]))})
            elif rr < 0.9:
                ops.append({"c": c, "op": "entropy.draw", "n": 1})
            else:
                ops.append({"c": c, "op": "py.random", "kind": "seed", "seed": g.getrandbits(16)})
        elif r < 0.98 and "lib.call" in faults:
            from . import c13
            api = g.choice(["nd.sample", "lganm.sample", "anm.sample", "gen.dag_avg_deg"])
            call = c13.gen_call(g, {"pmax": 3, "seeds": cfg["seeds"]}, api, g.choice(cfg["seeds"] + [None]))
            ops.append({"c": c, "op": "lib.call", "call": call})
        elif "gc" in faults:
            if g.random() < 0.3:
                from .world import IMPORTABLE
                ops.append({"c": c, "op": "py.import", "module": g.choice(IMPORTABLE)})
            else:
                ops.append({"c": c, "op": "gc"})
    shared_upstream(st["shared_upstream"], ops)
    unseeded_pairs(st["unseeded_pairs"], ops, cfg)
    drop_and_rebuild(st["netdrop"], ops, cfg)
    G.bitgen_variation(st["bitgen"], ops)
    G.generator_seed_variation(st["genseed"], ops, lambda r: r.get("op") == "net.sample" and not r.get("invalid"))
    np_star_faults(st["np_star"], ops)
    retry_failed_constructions(st["retry"], ops, cfg)
    same_arrays_variation(st["samearrays"], ops, cfg)
    copied_networks_variation(st["netcopy"], ops, cfg)
    return cfg, ops


def shared_upstream(f, ops):
    """Environments that differ only in the variables that were intervened on: in some networks every later
    environment repeats environment 0 except for a few columns, which get values of their own (so a node can have
    the very same parent columns in two environments and different responses).  Decided by a stream of its own, after
    generation."""
    for rec in ops:
        if rec.get("op") != "net.new" or rec.get("invalid") or len(rec["data"]) < 2:
            continue
        r = f.random()
        d0 = dec(rec["data"][0])
        N, p = d0.shape
        plan = [(f.sample(range(p), f.randint(1, max(1, p // 2))), f.sample(range(N), N)) for _ in rec["data"][1:]]
        if r >= 0.15 or d0.dtype.kind not in "fi":
            continue
        for k, (changed, perm) in enumerate(plan, start=1):
            new = d0.copy()
            for i in changed:
                new[:, i] = (1000.0 * (k + 1) + 10.0 * np.array(perm) + i).astype(d0.dtype)
            rec["data"][k] = enc(new)
        rec["shared_upstream"] = True


def drop_and_rebuild(f, ops, cfg):
    """Object churn in a long-lived process: in some runs the session ends with the application dropping a network and
    building another one of the same shape from other data (forests and frames of the new one are likely to sit
    where those of the old one were), then sampling from it.  Decided by a stream of its own, after generation."""
    news = [r for r in ops if r.get("op") == "net.new" and not r.get("invalid") and not r.get("peer_fault")]
    r, rounds = f.random(), f.randint(1, 3)
    if r >= 0.12 or not news or cfg.get("big"):
        return
    old = f.choice(news)
    c = old.get("c", 0)
    prev = old["id"]
    for k in range(rounds):
        new = copy.deepcopy(old)
        new["id"] = "%s.again%d" % (old["id"], k + 1)
        new["data"] = [enc((dec(d) + 5000 * (k + 1)).astype(dec(d).dtype)) for d in old["data"]]
        new.pop("arm", None)
        ops.append({"c": c, "op": "net.drop", "net": prev, "results_too": True})
        ops.append(new)
        seed = f.choice([0, 1, f.getrandbits(32)])
        for _ in range(2):
            ops.append({"c": c, "op": "net.sample", "net": new["id"], "n": f.choice([None, f.randint(1, 30)]), "seed": seed})
        prev = new["id"]


def unseeded_pairs(f, ops, cfg):
    """With equal weights on the k nearest rows, some sessions end with two immediately consecutive unseeded samples
    that are large enough for oracle 4d (decided by a stream of its own, after generation)."""
    news = [r for r in ops if r.get("op") == "net.new" and not r.get("invalid") and not r.get("peer_fault")
            and not r.get("arm")]
    r, n = f.random(), f.choice([70, 96, 128])
    pc = cfg.get("peer", {})
    if not (pc.get("uniform") and int(pc.get("k", 1)) >= 2) or r >= 0.5 or not news or cfg.get("big"):
        return
    net = f.choice(news)
    for _ in range(2):
        ops.append({"c": net.get("c", 0), "op": "net.sample", "net": net["id"], "n": n, "seed": None})


def np_star_faults(f, ops):
    """Seam "np.*" (any numpy call made by sempler.semi / drf.code fails: allocation failure or Ctrl-C), decided by a
    stream of its own after the history was generated: half of the failing-allocation samples die in a numpy call
    instead, and now and then an identical network is being built - and dies half-way - in the middle of the session."""
    rate = f.choice([0, 0.1, 0.3])
    news = [r for r in ops if r.get("op") == "net.new" and not r.get("invalid")]
    i, extra = 0, 0
    while i < len(ops):
        rec = ops[i]
        r, r2, k, e = f.random(), f.random(), 1 + int(f.expovariate(1 / 6.0)), f.choice(["MemoryError", "KeyboardInterrupt"])
        if rec.get("op") == "net.sample":
            if rec.get("arm") is not None and r2 < 0.5:
                rec["arm"] = ["np.*", k, e]
            if news and r < rate / 3 and extra < 3 and i > 2:
                extra += 1
                dup = copy.deepcopy(f.choice(news))
                dup.update(id="dying%d" % extra, arm=["np.*", k, e], c=rec.get("c", 0))
                dup.pop("peer_fault", None)
                ops.insert(i, dup)
                i += 1
        i += 1


def retry_failed_constructions(f, ops, cfg):
    """What an application does after a construction failed (R error during a fit, allocation failure, Ctrl-C): it
    tries again with the same arguments.  Half of the failing constructions of a history are followed - at once, or a
    few operations later - by the identical construction without the fault, and by samples from the network it
    returns: whatever the failed attempt left behind (module-level caches, half-registered forests) must not reach
    it.  Decided by a stream of its own, after generation."""
    i, nretry = 0, 0
    while i < len(ops):
        rec = ops[i]
        r, gap, seed, n = f.random(), f.choice([0, 0, 1, 3]), f.choice([0, 1, f.getrandbits(32), None]), f.choice([None, f.randint(1, 30)])
        i += 1
        if rec.get("op") != "net.new" or rec.get("invalid") or not (rec.get("peer_fault") or rec.get("arm")) \
                or cfg.get("big") or cfg.get("giant") or r >= 0.5 or nretry >= 3:
            continue
        nretry += 1
        again = copy.deepcopy(rec)
        again.pop("peer_fault", None)
        again.pop("arm", None)
        again["id"] = "%s.retry%d" % (rec["id"], nretry)
        again["retry"] = True
        at = min(len(ops), i + gap)
        new = [again] + [{"c": rec.get("c", 0), "op": "net.sample", "net": again["id"], "n": n, "seed": seed} for _ in range(2)]
        ops[at:at] = new


def same_arrays_variation(f, ops, cfg):
    """One network per candidate graph, all fitted to the same arrays: in one run in ten the caller works in place on
    the data arrays of a network it has built (every value changes) and then builds another network - same graph or
    the graph without its last edge - from the very same array objects, and samples from it.  Whatever the library
    remembers about arrays it has seen (by id(), by weak reference) belongs to their old contents.  Decided by a
    stream of its own, after generation."""
    news = [(i, r) for i, r in enumerate(ops) if r.get("op") == "net.new" and not r.get("invalid")
            and not r.get("peer_fault") and not r.get("arm") and "." not in r["id"]]
    r, pick, gap, seed, n, drop_edge = f.random(), f.random(), f.randint(1, 6), f.choice([0, 1, f.getrandbits(32)]), \
        f.choice([None, f.randint(5, 30)]), f.random() < 0.4
    if r >= 0.1 or not news or cfg.get("big") or cfg.get("giant"):
        return
    i, old = news[int(pick * len(news))]
    new = copy.deepcopy(old)
    new["id"] = old["id"] + "same"
    new["same_arrays_as"] = old["id"]
    new.pop("views", None)
    if drop_edge:
        A = np.array(dec(old["graph"]), copy=True)
        fro, to = np.nonzero(A)
        if len(fro):
            A[fro[-1], to[-1]] = 0
            new["graph"] = enc(A)
    c = old.get("c", 0)
    at = min(len(ops), i + 1 + gap)
    ops[at:at] = [{"c": c, "op": "fault.scribble", "target": old["id"] + ".data"}, new] + \
        [{"c": c, "op": "net.sample", "net": new["id"], "n": n, "seed": seed} for _ in range(2)]


def copied_networks_variation(f, ops, cfg):
    """In one run in ten the application goes on with an equal copy of one of its networks (deepcopy / pickle round
    trip); the first sample of the copy meets an R error in its k-th fit request, should it send any (a network that
    fits lazily after unpickling), and the caller simply asks again, twice, with a seed.  Decided by a stream of its
    own, after generation."""
    news = [(i, r) for i, r in enumerate(ops) if r.get("op") == "net.new" and not r.get("invalid")
            and not r.get("peer_fault") and not r.get("arm") and "." not in r["id"]]
    r, pick, gap, how, k = f.random(), f.random(), f.randint(1, 8), f.choice(["deepcopy", "pickle"]), f.randint(1, 3)
    seed, n = f.choice([0, 1, f.getrandbits(32)]), f.choice([None, f.randint(5, 30)])
    if r >= 0.1 or not news or cfg.get("big") or cfg.get("giant"):
        return
    i, old = news[int(pick * len(news))]
    c, nid = old.get("c", 0), old["id"] + "copy"
    at = min(len(ops), i + 1 + gap)
    ops[at:at] = [{"c": c, "op": "net.copy", "net": old["id"], "id": nid, "how": how},
                  {"c": c, "op": "net.sample", "net": nid, "n": n, "seed": seed, "peer_fault": ["fit", k]}] + \
        [{"c": c, "op": "net.sample", "net": nid, "n": n, "seed": seed} for _ in range(2)]


def generate_giant(g, cfg):
    """One run in about 250 (thorough tier) / 330 (quick tier): one environment with thousands of rows and a request
    of thousands of rows (n * N just above 10**7), beyond the block / batch sizes a wrapper may use."""
    cfg["giant"] = True
    N = g.choice([2100, 2600])
    n_big = 10 ** 7 // N + g.randint(1, 400)
    p = g.choice([2, 3])
    graph = np.zeros((p, p))
    graph[0, p - 1] = 1
    if p == 3 and g.random() < 0.5:
        graph[1, 2] = 1
    if g.random() < 0.5:
        # two or three variables that have parents (a chain, or a chain and a second child of the first source)
        p = g.choice([3, 4])
        graph = np.zeros((p, p))
        graph[0, 1] = graph[1, 2] = 1
        if p == 4:
            graph[g.choice([0, 2]), 3] = 1
    data = []
    for k, Nk in enumerate([g.randint(20, 40), N]):
        rows = list(range(Nk))
        cols = []
        for i in range(p):
            g.shuffle(rows)
            cols.append([100000.0 * (k + 1) + 10.0 * rows[r] + i + G.r2(g, 0, 0.4) for r in range(Nk)])
        data.append(np.array(cols, dtype=float).T.copy())
    seed = g.choice(cfg["seeds"])
    return [{"op": "peer.config", "c": 0, "k": g.choice([1, 2]), "slack": False},
            {"op": "net.new", "c": 0, "id": "n1", "graph": enc(graph), "data": [enc(d) for d in data], "verbose": False},
            {"op": "net.sample", "c": 0, "net": "n1", "n": [g.randint(5, 40), n_big], "seed": seed},
            {"op": "np.perturb", "c": 0, "kind": "draw", "dist": "normal", "n": 3},
            {"op": "net.sample", "c": 0, "net": "n1", "n": g.randint(5, 40), "seed": seed}]


RULE = ("Each run is one seeded history of 6-30 operations on 1-2 DRFNets (random DAGs with p<=6 incl. empty graphs, "
        "chains, colliders with >=2 parents, >=2 sources; 1-3 environments of 2-40 rows, values encoding "
        "(environment,row,column) uniquely in 85% of runs) talking to a simulated R peer (k-nearest-row forest, "
        "k in 1..4): construct, sample with n in {None,int,list} and seeds incl. 0 and None, repeated seeded "
        "samples separated by global-RNG perturbation / other library calls / other samples, caller scribbles on "
        "graph, data and returned samples, every documented invalid argument, peer failures during fit and predict. "
        "A case is one sample call abstracted to (#sources, #non-sources, #environments, form of n, seed class, "
        "peer k, fault bitmask of the network, invalid-argument kind, outcome class); distinct_nontrivial counts "
        "distinct abstractions on networks with a non-source node or at least two sources.")

ASSUMPTIONS = [
    "rpy2, the R process and the R package drf are replaced by a deterministic stand-in; statistical quality of a real "
    "forest is out of scope",
    "pandas and numpy are trusted",
    "source independence is asserted only when n*log2(N) >= 64 (coincidence probability below 2^-64)",
    "p <= 6, e <= 3, N_k <= 40, n <= 40; non-square graphs and empty data lists are undocumented and not generated",
    "a clean batch is evidence over the sampled histories, not a proof",
]

REQUIRED_PROBES = ["sources>=2.independence_checkable", "sources>=2.functional_dependence_checkable", "sources>=2.independence_checkable.seeded",
                   "non_source.parents>=2", "equal_sized_environments", "seed0",
                   "seeded_pair.nontrivial", "seeded_pair.seed0", "seeded_pair.numpy_integer_seed", "seeded_pair.seed_sequence_object_reused", "seeded_pair.sep.global_reseed",
                   "seeded_pair.k>=2.non_source", "peer.k>=2.non_source", "peer_fault.fit", "verbose",
                   "sample_after_scribble_input", "n:none", "n:int", "n:list", "sweep.peer_fault_positions", "sweep.alloc_fault_positions", "non_sources>=2.draw_independence_checkable",
                   "seed_passed_positionally", "burst.samples_on_one_network",
                   "peer_fault.predict.raised", "data.non_contiguous_views", "data.fortran_order", "data.dtype:<i8",
                   "data.dtype:<f4"] + \
                  ["invalid:" + k for k in sorted(INVALID_NEW)] + ["invalid:" + k for k in sorted(INVALID_N)]

REQUIRED_PROBES = REQUIRED_PROBES + ["thread.calls_outside_main_thread", "fault.died_in_a_numpy_call(np.*)", "sweep.np_star_positions", "construction_died_in_a_numpy_call", "data.environments_share_upstream_columns", "net.dropped", "seed.given_as_Generator", "consecutive_unseeded_samples.draws_compared", "rows_with_equal_parents.order_checkable", "construction.retried_after_a_failed_attempt", "construction.from_the_array_objects_of_an_earlier_network", "peer_fault.predict.returned.seeded_result_compared", "net.used_through_a_copy:deepcopy", "net.used_through_a_copy:pickle"]


def simplify(op):
    if op.get("op") == "net.sample":
        n = op.get("n")
        if isinstance(n, int) and n > 1:
            yield dict(op, n=1)
            yield dict(op, n=n // 2)
        for flag in ("keep", "sweep"):
            if flag in op:
                yield {k: v for k, v in op.items() if k != flag}
    if op.get("op") == "net.new" and op.get("verbose"):
        yield dict(op, verbose=False)
