"""semsim: deterministic simulation of the sempler library (see /verif/DESIGN.md)."""
