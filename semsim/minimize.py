"""Delta debugging over the op list (DESIGN 2.6)."""


def ddmin(ops, test, max_tests=400):
    """Smallest sublist (1-minimal within budget) for which test(sublist) is True.
    test(ops) must already be True."""
    n = 2
    tests = 0
    cur = list(ops)
    while len(cur) >= 2 and tests < max_tests:
        size = max(1, len(cur) // n)
        chunks = [cur[i:i + size] for i in range(0, len(cur), size)]
        reduced = False
        # try complements (remove one chunk)
        for k in range(len(chunks)):
            cand = [x for j, ch in enumerate(chunks) if j != k for x in ch]
            if not cand:
                continue
            tests += 1
            if test(cand):
                cur = cand
                n = max(n - 1, 2)
                reduced = True
                break
            if tests >= max_tests:
                break
        if not reduced:
            if size == 1:
                break
            n = min(n * 2, len(cur))
    return cur, tests


def _same(a, b):
    return {k: v for k, v in a.items() if k != "c"} == {k: v for k, v in b.items() if k != "c"}


def shrink_fields(ops, test, candidates, max_tests=200):
    """Per-op argument reduction.  candidates(op) yields simpler variants of one op; the same
    simplification is applied to every identical op (so that call pairs stay pairs)."""
    tests = 0
    cur = list(ops)
    for i in range(len(cur)):
        progress = True
        while progress and tests < max_tests:
            progress = False
            group = [j for j in range(len(cur)) if _same(cur[j], cur[i])]
            variants = list(candidates(cur[i]))
            for vi in range(len(variants)):
                cand = list(cur)
                for j in group:
                    vs = list(candidates(cur[j]))
                    cand[j] = vs[vi] if vi < len(vs) else cur[j]
                tests += 1
                if test(cand):
                    cur = cand
                    progress = True
                    break
                if tests >= max_tests:
                    break
    return cur, tests
