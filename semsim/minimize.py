"""Delta debugging over the op list (DESIGN 2.6)."""


def ddmin(ops, test, max_tests=400):
    """Smallest sublist (1-minimal within budget) for which test(sublist) is True.
    test(ops) must already be True."""
    n = 2
    tests = 0
    cur = list(ops)
    while len(cur) >= 2 and tests < max_tests:
        size = max(1, len(cur) // n)
        chunks = [cur[i:i + size] for i in range(0, len(cur), size)]
        reduced = False
        # try complements (remove one chunk)
        for k in range(len(chunks)):
            cand = [x for j, ch in enumerate(chunks) if j != k for x in ch]
            if not cand:
                continue
            tests += 1
            if test(cand):
                cur = cand
                n = max(n - 1, 2)
                reduced = True
                break
            if tests >= max_tests:
                break
        if not reduced:
            if size == 1:
                break
            n = min(n * 2, len(cur))
    return cur, tests


def shrink_fields(ops, test, candidates, max_tests=200):
    """Per-op argument reduction.  candidates(op) yields simpler variants of one op."""
    tests = 0
    cur = list(ops)
    for i in range(len(cur)):
        progress = True
        while progress and tests < max_tests:
            progress = False
            for simpler in candidates(cur[i]):
                cand = cur[:i] + [simpler] + cur[i + 1:]
                tests += 1
                if test(cand):
                    cur = cand
                    progress = True
                    break
                if tests >= max_tests:
                    break
    return cur, tests
