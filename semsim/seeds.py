"""One integer decides everything (DESIGN 2.1).

run_seed = H(VERIF_SEED, property, run_index); independent streams are derived from it
by hashing with a label.  The simulator never uses numpy's global generator or Python's
global `random` for its own choices: both are part of the system under test.
"""
import hashlib
import random
import struct


def H(*parts):
    """SHA-256 of the parts, first 8 bytes as an unsigned integer."""
    h = hashlib.sha256()
    for p in parts:
        b = p if isinstance(p, bytes) else str(p).encode()
        h.update(struct.pack("<I", len(b)))
        h.update(b)
    return int.from_bytes(h.digest()[:8], "little")


def run_seed(verif_seed, prop, run_index):
    return H("run", verif_seed, prop, run_index)


class Streams:
    """Named independent random.Random streams derived from one run seed."""

    def __init__(self, seed):
        self.seed = seed
        self._s = {}

    def __getitem__(self, label):
        s = self._s.get(label)
        if s is None:
            s = self._s[label] = random.Random(H("stream", self.seed, label))
        return s
