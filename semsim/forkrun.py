"""Process isolation: every simulated run, and every pristine evaluation, executes in a
child forked from a process that has imported and patched but never run an operation
(DESIGN 2.5).  One seed is therefore one exactly repeatable execution, independent of
what the worker did before.
"""
import os
import pickle
import signal
import sys
import traceback


class ChildFailure(Exception):
    """The forked child died, hung or raised outside the simulated system: harness error."""


def in_fork(fn, *args, timeout=120):
    """Run fn(*args) in a forked child; return its (picklable) result."""
    r, w = os.pipe()
    sys.stdout.flush()
    sys.stderr.flush()
    pid = os.fork()
    if pid == 0:
        code = 0
        try:
            os.close(r)
            signal.signal(signal.SIGALRM, signal.SIG_DFL)
            signal.alarm(int(timeout))
            try:
                res = ("ok", fn(*args))
            except BaseException:
                res = ("err", traceback.format_exc())
            data = pickle.dumps(res, protocol=pickle.HIGHEST_PROTOCOL)
            with os.fdopen(w, "wb") as f:
                f.write(data)
        except BaseException:
            code = 3
        finally:
            os._exit(code)
    os.close(w)
    chunks = []
    with os.fdopen(r, "rb") as f:
        while True:
            b = f.read(1 << 16)
            if not b:
                break
            chunks.append(b)
    _, status = os.waitpid(pid, 0)
    data = b"".join(chunks)
    if not data:
        raise ChildFailure("child produced no result (status %r; killed by alarm after %ss?)" % (status, timeout))
    kind, val = pickle.loads(data)
    if kind == "err":
        raise ChildFailure("child raised:\n" + val)
    return val
