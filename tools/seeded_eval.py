#!/venv/bin/python
"""Confirm an independently written breaking change and run the checks against it.

  tools/seeded_eval.py <source dir with patch.diff, demo.py, notes.md> <id> <property> [--skip-suite]

Confirms in a scratch copy of /repo (outside /repo and /verif, removed afterwards): the patch applies,
the repository's test suite still passes with it, the demonstration fails with it and passes
without it.  Then runs ./check <property> (quick) against the scratch copy and records everything
in /verif/seeded/<id>/meta.json.
"""
import json
import os
import shutil
import subprocess
import sys
import tempfile
import time

HERE = os.path.dirname(os.path.dirname(os.path.abspath(__file__)))
REPO = "/repo"


def run(cmd, cwd=None, env=None, timeout=3000):
    e = dict(os.environ)
    e.pop("PYTHONHASHSEED", None)
    e["PYTHONDONTWRITEBYTECODE"] = "1"
    if env:
        e.update(env)
    return subprocess.run(cmd, cwd=cwd, env=e, capture_output=True, text=True, timeout=timeout)


def main():
    src, sid, prop = sys.argv[1:4]
    skip_suite = "--skip-suite" in sys.argv
    runs = "6000"
    d = tempfile.mkdtemp(prefix="semsim_seeded_")
    meta = {"id": sid, "property": prop, "source": "independent sub-agent given only the property text and a scratch worktree",
            "ran": []}
    try:
        repo = os.path.join(d, "repo")
        shutil.copytree(REPO, repo, ignore=shutil.ignore_patterns(".git", "__pycache__", ".benchmarks"))
        p = run(["patch", "-p1", "-s", "-i", os.path.abspath(os.path.join(src, "patch.diff"))], cwd=repo)
        meta["patch_applies"] = p.returncode == 0
        if p.returncode != 0:
            print("patch failed", p.stdout, p.stderr)
            return 1
        demo = os.path.abspath(os.path.join(src, "demo.py"))
        w = run(["/venv/bin/python", "-B", demo], cwd=d, env={"PYTHONPATH": repo}, timeout=600)
        wo = run(["/venv/bin/python", "-B", demo], cwd=d, env={"PYTHONPATH": REPO}, timeout=600)
        meta["demo_rc_with_change"] = w.returncode
        meta["demo_rc_without_change"] = wo.returncode
        meta["ran"].append("PYTHONPATH=<scratch repo with patch> /venv/bin/python demo.py -> rc %d; on the unchanged tree -> rc %d"
                           % (w.returncode, wo.returncode))
        print("demo with change rc=%d, without rc=%d" % (w.returncode, wo.returncode))
        old = os.path.join(HERE, "seeded", sid, "meta.json")
        if skip_suite and os.path.exists(old):
            om = json.load(open(old))
            if om.get("suite_with_change"):
                meta["suite_with_change"] = om["suite_with_change"]
                meta["ran"].append("pytest (repository suite, test_semi.py cannot be collected without rpy2) with the change: "
                                   + om["suite_with_change"] + " (recorded by an earlier confirmation run)")
        if not skip_suite:
            t = run(["/venv/bin/python", "-m", "pytest", "-q", "-p", "no:cacheprovider", "--timeout=900",
                     "--continue-on-collection-errors", "--ignore=sempler/test/test_semi.py"], cwd=repo,
                    env={"PYTHONPATH": repo})
            tail = t.stdout.strip().splitlines()[-1] if t.stdout.strip() else ""
            meta["suite_with_change"] = tail
            meta["ran"].append("pytest (repository suite, test_semi.py cannot be collected without rpy2) with the change: " + tail)
            print("suite:", tail)
        t0 = time.time()
        c = run([os.path.join(HERE, "check"), prop, "--runs", runs, "--repo", repo, "--no-evidence",
                 "--replay-dir", os.path.join(d, "replays")])
        viol = [ln for ln in c.stdout.splitlines() if ln.startswith("violation:")]
        meta["check_cmd"] = "./check %s --tier quick --repo <scratch copy with the change>" % prop
        meta["check_rc"] = c.returncode
        meta["detected"] = c.returncode == 1 and ("VIOLATION property=%s" % prop) in c.stdout
        meta["check_first_violations"] = [v[:400] for v in viol[:3]]
        meta["check_wall_s"] = round(time.time() - t0, 1)
        print("check rc=%d detected=%s %s" % (c.returncode, meta["detected"], viol[0][:200] if viol else ""))
        if c.returncode == 2:
            print(c.stdout[-1500:])
        if c.returncode == 0 and "--thorough" in sys.argv:
            budget = sys.argv[sys.argv.index("--thorough") + 1]
            t0 = time.time()
            c = run([os.path.join(HERE, "check"), prop, "--tier", "thorough", "--budget", budget, "--repo", repo,
                     "--no-evidence", "--replay-dir", os.path.join(d, "replays")])
            viol = [ln for ln in c.stdout.splitlines() if ln.startswith("violation:")]
            meta["quick_detected"] = False
            meta["check_cmd"] = "./check %s --tier thorough --budget %s --repo <scratch copy with the change> (the quick tier did not detect it)" % (prop, budget)
            meta["check_rc"] = c.returncode
            meta["detected"] = c.returncode == 1 and ("VIOLATION property=%s" % prop) in c.stdout
            meta["check_first_violations"] = [v[:400] for v in viol[:3]]
            meta["check_wall_s"] = round(time.time() - t0, 1)
            print("thorough: rc=%d detected=%s %s" % (c.returncode, meta["detected"], viol[0][:200] if viol else ""))
        rp = [ln.split("replay=")[1] for ln in c.stdout.splitlines() if ln.startswith("VIOLATION")]
        out = os.path.join(HERE, "seeded", sid)
        os.makedirs(out, exist_ok=True)
        for f in ("patch.diff", "demo.py", "notes.md"):
            if os.path.exists(os.path.join(src, f)):
                shutil.copy(os.path.join(src, f), os.path.join(out, f))
        if rp and os.path.exists(rp[0]):
            shutil.copy(rp[0], os.path.join(out, "replay.json"))
            meta["replay"] = "seeded/%s/replay.json (minimised history found by the check)" % sid
        notes = os.path.join(src, "notes.md")
        if os.path.exists(notes):
            meta["needs_to_manifest"] = "see notes.md"
        json.dump(meta, open(os.path.join(out, "meta.json"), "w"), indent=1)
    finally:
        shutil.rmtree(d, ignore_errors=True)
    return 0


if __name__ == "__main__":
    sys.exit(main())
