#!/venv/bin/python
"""Print the markdown table of DESIGN.md 12.4 from seeded/*/meta.json and seeded/DESCRIPTIONS.json."""
import json
import os
import re

HERE = os.path.dirname(os.path.dirname(os.path.abspath(__file__)))
D = json.load(open(os.path.join(HERE, "seeded", "DESCRIPTIONS.json")))
for sid in sorted(D):
    mp = os.path.join(HERE, "seeded", sid, "meta.json")
    meta = json.load(open(mp)) if os.path.exists(mp) else {}
    v = (meta.get("check_first_violations") or [""])[0]
    m = re.match(r"violation: (\S+) at (.+?) \(run", v)
    by = "%s @ %s" % (m.group(1), m.group(2)) if m else ("NOT DETECTED" if meta else "?")
    what, needs, first = D[sid]
    print("| `%s` (%s) | %s | %s | %s — %s |" % (sid, meta.get("property", "?"), what, needs, by, first))
