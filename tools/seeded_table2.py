#!/venv/bin/python
"""Markdown table for the changes recorded after DESCRIPTIONS.json was frozen (waves 17 onwards): one row per
seeded/<id>/ that is not in DESCRIPTIONS.json - id, property, first heading of the author's notes.md, what the check
reports now (meta.json), and the first-attempt status from seeded/FIRST_ATTEMPT.json (ids missed at first -> what was
added)."""
import json
import os
import re

HERE = os.path.dirname(os.path.dirname(os.path.abspath(__file__)))
S = os.path.join(HERE, "seeded")
D = json.load(open(os.path.join(S, "DESCRIPTIONS.json")))
FA = json.load(open(os.path.join(S, "FIRST_ATTEMPT.json"))) if os.path.exists(os.path.join(S, "FIRST_ATTEMPT.json")) else {}


def key(sid):
    m = re.match(r"c(\d+)([a-z]+)_(\d)", sid)
    return (m.group(1), len(m.group(2)), m.group(2), m.group(3))


for sid in sorted([d for d in os.listdir(S) if os.path.isdir(os.path.join(S, d)) and d not in D], key=key):
    meta = json.load(open(os.path.join(S, sid, "meta.json")))
    title = ""
    np_ = os.path.join(S, sid, "notes.md")
    if os.path.exists(np_):
        for ln in open(np_, encoding="utf-8", errors="replace"):
            if ln.strip():
                title = re.sub(r"^#+\s*", "", ln.strip())
                title = re.sub(r"^[Cc]hange[ _]?\d\s*[-:–—.]*\s*", "", title)
                break
    v = (meta.get("check_first_violations") or [""])[0]
    m = re.match(r"violation: (\S+) at (.+?) \(run (\d+)", v)
    by = "%s @ %s (run %s)" % (m.group(1), m.group(2), m.group(3)) if m else "NOT DETECTED"
    first = ("missed at first; caught after " + FA[sid]) if sid in FA else ("caught" if m else "not detected")
    print("| `%s` (%s) | %s | %s - %s |" % (sid, meta.get("property", "?"), title.replace("|", "/")[:230], by, first))
