#!/venv/bin/python
"""Regenerates /verif/mutants/*.patch (the sensitivity catalogue, DESIGN 2.7) from /repo's
current tree.  Each mutant is one (file, old text, new text) edit that still compiles."""
import difflib
import json
import os
import sys

REPO = sys.argv[1] if len(sys.argv) > 1 else "/repo"
OUT = os.path.join(os.path.dirname(os.path.dirname(os.path.abspath(__file__))), "mutants")

M = []


def mut(name, prop, path, old, new, needs):
    M.append((name, prop, path, old, new, needs))


# ---------------------------------------------------------------- C13
mut("c13_nd_seed_truthy", "C13", "sempler/normal_distribution.py",
    "np.random.seed(random_state) if random_state is not None else None",
    "np.random.seed(random_state) if random_state else None",
    "seed 0 and a perturbed global generator between two calls")
mut("c13_anm_seed_truthy", "C13", "sempler/anm.py",
    "np.random.seed(random_state) if random_state is not None else None",
    "np.random.seed(random_state) if random_state else None",
    "seed 0 and a perturbed global generator between two calls")
mut("c13_lganm_sample_drops_seed", "C13", "sempler/lganm.py",
    "return distribution.sample(n, random_state=random_state)",
    "return distribution.sample(n)",
    "any perturbation of the global generator between two seeded LGANM.sample calls")
mut("c13_lganm_ctor_seed_or_none", "C13", "sempler/lganm.py",
    "rng = np.random.default_rng(random_state)",
    "rng = np.random.default_rng(random_state or None)",
    "seed 0 in LGANM(W, (lo,hi), (lo,hi), random_state=0)")
mut("c13_dag_avg_deg_seed_or_none", "C13", "sempler/generators.py",
    "    rng = np.random.default_rng(random_state)\n    # Generate adjacency matrix as if top. ordering is 1..p",
    "    rng = np.random.default_rng(random_state or None)\n    # Generate adjacency matrix as if top. ordering is 1..p",
    "seed 0 in dag_avg_deg")
mut("c13_split_data_seed_or_none", "C13", "sempler/utils.py",
    "    folds = dict((i, []) for i in range(n_folds))\n    rng = np.random.default_rng(random_state)",
    "    folds = dict((i, []) for i in range(n_folds))\n    rng = np.random.default_rng(random_state or None)",
    "seed 0 in split_data")
mut("c13_dag_avg_deg_global_permutation", "C13", "sempler/generators.py",
    "    print(\"p = %d, k = %0.2f, P = %0.4f\" % (p, k, prob)) if debug else None\n    A = rng.uniform(size=(p, p))\n    A = (A <= prob).astype(float)\n    A = np.triu(A, k=1)\n    weights = rng.uniform(w_min, w_max, size=A.shape)\n    W = A * weights\n\n    # Permute rows/columns according to random topological ordering\n    permutation = rng.permutation(p)",
    "    print(\"p = %d, k = %0.2f, P = %0.4f\" % (p, k, prob)) if debug else None\n    A = rng.uniform(size=(p, p))\n    A = (A <= prob).astype(float)\n    A = np.triu(A, k=1)\n    weights = rng.uniform(w_min, w_max, size=A.shape)\n    W = A * weights\n\n    # Permute rows/columns according to random topological ordering\n    permutation = np.random.permutation(p)",
    "one draw from the global stream: reproducible only in a quiet process")
mut("c13_split_data_global_shuffle", "C13", "sempler/utils.py",
    "        rng.shuffle(sample)",
    "        np.random.shuffle(sample)",
    "shuffle on the global stream: needs a perturbation between the two calls")
mut("c13_noise_laplace_private_generator", "C13", "sempler/noise.py",
    "def laplace(mean=0, scale=1):\n    return lambda n: np.random.laplace(mean, scale, n)",
    "_rng = np.random.default_rng(2021)\n\n\ndef laplace(mean=0, scale=1):\n    return lambda n: _rng.laplace(mean, scale, n)",
    "ANM with laplace noise sampled twice with the same random_state")
mut("c13_intervention_targets_generator_cache", "C13", "sempler/generators.py",
    "    rng = np.random.default_rng(random_state)\n    # Build intervention sizes",
    "    rng = _RNG_CACHE.setdefault(random_state, np.random.default_rng(random_state)) if random_state is not None else np.random.default_rng()\n    # Build intervention sizes",
    "second call with the same seed continues the cached stream", )
mut("c13_nd_unseeded_degenerate", "C13", "sempler/normal_distribution.py",
    "np.random.seed(random_state) if random_state is not None else None",
    "np.random.seed(random_state or 0)",
    "two consecutive unseeded calls return the same sample")
mut("c13_add_edges_seed_hash", "C13", "sempler/utils.py",
    "    fro, to = np.where((A + A.T + np.eye(len(A))) == 0)\n    rng = np.random.default_rng(random_state)",
    "    fro, to = np.where((A + A.T + np.eye(len(A))) == 0)\n    rng = np.random.default_rng(abs(hash(str(random_state))) % 2**32 if random_state is not None else None)",
    "reproducible within one process, not across interpreters (string hash randomisation)")
mut("c13_remove_edges_seed_or_none", "C13", "sempler/utils.py",
    "    A = A.astype(bool).astype(int)\n    rng = np.random.default_rng(random_state)\n    edges = directed_edges(A)",
    "    A = A.astype(bool).astype(int)\n    rng = np.random.default_rng(random_state or None)\n    edges = directed_edges(A)",
    "seed 0 in remove_edges")
mut("c13_dag_full_global_weights", "C13", "sempler/generators.py",
    "    A = np.triu(np.ones((p, p)), k=1)\n    weights = rng.uniform(w_min, w_max, size=A.shape)",
    "    A = np.triu(np.ones((p, p)), k=1)\n    weights = np.random.uniform(w_min, w_max, size=A.shape)",
    "weights drawn from the global stream; w_min < w_max and a perturbation between calls")

mut("c13_nd_algorithm_switch_after_200_calls", "C13", "sempler/normal_distribution.py",
    "        np.random.seed(random_state) if random_state is not None else None\n        return np.random.multivariate_normal(self.mean, self.covariance, size=n)",
    "        np.random.seed(random_state) if random_state is not None else None\n        self._times_sampled = getattr(self, '_times_sampled', 0) + 1\n        if self._times_sampled > 200:\n            # 'hot' distribution: eigen-factor route\n            vals, vecs = np.linalg.eigh((self.covariance + self.covariance.T) / 2)\n            factor = vecs * np.sqrt(np.clip(vals, 0, None))\n            return np.random.standard_normal((n, self.p)) @ factor.T + self.mean\n        return np.random.multivariate_normal(self.mean, self.covariance, size=n)",
    "the same distribution object sampled more than 200 times: only a burst (long session) reaches it")

# ---------------------------------------------------------------- C14
mut("c14_lganm_W_nocopy", "C14", "sempler/lganm.py",
    "        W = self.W.copy()", "        W = self.W",
    "a do-intervention, then any later call on the same model")
mut("c14_lganm_means_nocopy", "C14", "sempler/lganm.py",
    "        means = self.means.copy()", "        means = self.means",
    "a shift/noise/do intervention, visible one call later")
mut("c14_lganm_variances_nocopy", "C14", "sempler/lganm.py",
    "        variances = self.variances.copy()", "        variances = self.variances",
    "an intervention with a variance, visible one call later")
mut("c14_anm_A_alias", "C14", "sempler/anm.py",
    "        self.A = deepcopy(A)", "        self.A = A",
    "caller modifies its adjacency after constructing the ANM")
mut("c14_anm_assignments_no_deepcopy", "C14", "sempler/anm.py",
    "deepcopy(fun) for fun in assignments]", "fun for fun in assignments]",
    "callable instance with mutable parameters, modified by the caller after construction")
mut("c14_anm_noise_alias", "C14", "sempler/anm.py",
    "        self.noise_distributions = deepcopy(noise_distributions)",
    "        self.noise_distributions = noise_distributions",
    "caller replaces an element of its noise list after construction")
mut("c14_topological_ordering_nocopy", "C14", "sempler/utils.py",
    "    # large networks\" by AB Kahn\n    A = A.copy()", "    # large networks\" by AB Kahn\n    A = A",
    "any graph with an edge: the caller's matrix (and LGANM's own W) is eaten")
mut("c14_maximally_orient_nocopy", "C14", "sempler/utils.py",
    "        raise e\n    P = P.copy()", "        raise e\n    P = P",
    "a PDAG on which a Meek rule fires")
mut("c14_all_dags_nocopy", "C14", "sempler/utils.py",
    "        A = pdag.copy()\n        A[oriented_edges", "        A = pdag\n        A[oriented_edges",
    "a PDAG with at least one undirected edge")
mut("c14_split_data_nocopy", "C14", "sempler/utils.py",
    "        sample = sample.copy()\n", "",
    "data with n >= 2: the caller's arrays are shuffled in place")
mut("c14_scalar_intervention_normalised_in_place", "C14", "sempler/lganm.py",
    "            interventions.append([target, params, 0])",
    "            interventions_dict[target] = (params, 0)\n            interventions.append([target, params, 0])",
    "a scalar-valued intervention: the caller's dict is rewritten")
mut("c14_lganm_default_dict_pollution", "C14", "sempler/lganm.py",
    "        # Perform shift interventions\n        if shift_interventions:",
    "        # do-intervened variables: keep the noise bookkeeping consistent\n        for target in do_interventions:\n            noise_interventions[target] = do_interventions[target]\n        # Perform shift interventions\n        if shift_interventions:",
    "a do-intervened call with noise_interventions omitted pollutes the shared default dict of every instance")
mut("c14_lganm_population_cache", "C14", "sempler/lganm.py",
    "        # Sampling by building the joint distribution\n        A = np.linalg.inv(np.eye(self.p) - W.T)\n        mean = A @ means\n        covariance = A @ np.diag(variances) @ A.T\n        distribution = NormalDistribution(mean, covariance)",
    "        # Sampling by building the joint distribution (cached per set of intervened variables)\n        cache = self.__dict__.setdefault('_cache', {})\n        key = tuple(tuple(sorted(iv[:, 0])) if isinstance(iv, np.ndarray) else () for iv in (do_interventions, shift_interventions, noise_interventions))\n        if key not in cache:\n            A = np.linalg.inv(np.eye(self.p) - W.T)\n            mean = A @ means\n            covariance = A @ np.diag(variances) @ A.T\n            cache[key] = NormalDistribution(mean, covariance)\n        distribution = cache[key]",
    "two calls intervening on the same targets with different values")
mut("c14_anm_reused_buffer", "C14", "sempler/anm.py",
    "        X = np.zeros((n, self.p))\n",
    "        if getattr(self, '_X', None) is None or self._X.shape[0] != n:\n            self._X = np.zeros((n, self.p))\n        X = self._X\n        X[:] = 0\n",
    "two samples of the same size from one model: the first result is overwritten")
mut("c14_lganm_modify_restore_no_finally", "C14", "sempler/lganm.py",
    "        W = self.W.copy()\n        variances = self.variances.copy()\n        means = self.means.copy()\n",
    "        W = self.W\n        saved_W = self.W.copy()\n        variances = self.variances.copy()\n        means = self.means.copy()\n",
    "PLUS a second edit restoring W after use: only an exception between modify and restore exposes it")
mut("c14_nd_marginal_identity_fast_path", "C14", "sempler/normal_distribution.py",
    "        X = np.atleast_1d(X)\n        # Compute marginal mean/variance",
    "        X = np.atleast_1d(X)\n        if len(X) == self.p and (X == np.arange(self.p)).all():\n            return self\n        # Compute marginal mean/variance",
    "marginal over all variables in order returns the model itself; the caller then modifies the result")
mut("c14_nd_regress_returns_kept_buffer", "C14", "sempler/normal_distribution.py",
    "        intercept = self.mean[y] - coefs @ self.mean\n        return (coefs, intercept)",
    "        intercept = self.mean[y] - coefs @ self.mean\n        self._last_coefs = coefs\n        return (self._last_coefs, intercept)",
    "regress returns an array the model keeps: aliasing of returned storage with model storage")
mut("c14_dag_to_cpdag_in_place_labels", "C14", "sempler/utils.py",
    "    labelled = (ordered != 0).astype(int) * UNK\n",
    "    labelled = ordered\n    labelled[ordered != 0] = UNK\n",
    "label_edges relabels the caller's ordered matrix in place")

mut("c14_topological_ordering_in_place_restore_no_finally", "C14", "sempler/utils.py",
    """    A = A.copy()
    sinks = list(np.where(A.sum(axis=0) == 0)[0])
    ordering = []
    while len(sinks) > 0:
        i = sinks.pop()
        ordering.append(i)
        for j in ch(i, A):
            A[i, j] = 0
            if len(pa(j, A)) == 0:
                sinks.append(j)
    # If A still contains edges there is at least one cycle
    if A.sum() > 0:
        raise ValueError("The given graph is not a DAG")
    else:
        return ordering
""",
    """    if not (isinstance(A, np.ndarray) and A.flags.writeable):
        A = np.array(A)
    saved = A.copy()
    sinks = list(np.where(A.sum(axis=0) == 0)[0])
    ordering = []
    while len(sinks) > 0:
        i = sinks.pop()
        ordering.append(i)
        for j in ch(i, A):
            A[i, j] = 0
            if len(pa(j, A)) == 0:
                sinks.append(j)
    # If A still contains edges there is at least one cycle
    cyclic = A.sum() > 0
    A[:] = saved
    if cyclic:
        raise ValueError("The given graph is not a DAG")
    else:
        return ordering
""",
    "works in place on the caller's matrix and restores it at the end, not in a finally: only an exception raised "
    "from inside one of its numpy calls (failing allocation, Ctrl-C) leaves the caller's matrix eaten; the seam np.*")
mut("c14_nd_str_sets_printoptions", "C14", "sempler/normal_distribution.py",
    "        return \"mean:\\n\" + str(self.mean) + \"\\ncovariance:\\n\" + str(self.covariance)",
    "        np.set_printoptions(precision=4, suppress=True)\n        return \"mean:\\n\" + str(self.mean) + \"\\ncovariance:\\n\" + str(self.covariance)",
    "str(distribution) leaves numpy's print options changed: interpreter-wide state")

mut("c14_plot_matrix_thresh_in_place", "C14", "sempler/plot.py",
    "    if ax is None:\n        plt.figure()\n        ax = plt.gca()\n    ax.imshow(A, vmin=vmin, vmax=vmax, cmap=\"bwr\")",
    "    if ax is None:\n        plt.figure()\n        ax = plt.gca()\n    A[np.abs(A) < thresh] = 0\n    ax.imshow(A, vmin=vmin, vmax=vmax, cmap=\"bwr\")",
    "the documented (and unimplemented) thresh of plot_matrix applied in place: a matrix with tiny non-zero entries "
    "- or the W of a live model - is changed by plotting it; sempler.plot against the simulated display")
mut("c14_plot_graph_clears_diagonal", "C14", "sempler/plot.py",
    "    G = nx.from_numpy_array(W, create_using=nx.DiGraph)\n",
    "    diagonal = np.diag(W).copy()\n    np.fill_diagonal(W, 0)    # no self-loops in the drawing\n    G = nx.from_numpy_array(W, create_using=nx.DiGraph)\n",
    "plot_graph clears the diagonal of the caller's matrix for the drawing (and never puts it back): matrices with a "
    "self-loop / non-zero diagonal")

# ---------------------------------------------------------------- C19
mut("c19_predict_parents_reversed", "C19", "sempler/semi.py",
    "                    new_data = pd.DataFrame(sample[:, sorted(parents)])",
    "                    new_data = pd.DataFrame(sample[:, sorted(parents, reverse=True)])",
    "a node with at least two parents")
mut("c19_forest_of_environment_0", "C19", "sempler/semi.py",
    "                    forest = self._random_forests[i, k]",
    "                    forest = self._random_forests[i, 0]",
    "at least two environments and a non-source node")
mut("c19_bootstrap_environment_0", "C19", "sempler/semi.py",
    "                        self._data[k][:, i], n[k], random_state=rng",
    "                        self._data[0][:, i], n[k], random_state=rng",
    "at least two environments")
mut("c19_index_order_instead_of_topological", "C19", "sempler/semi.py",
    "            for i in self._ordering:\n                if self._random_forests[i, k] is None:",
    "            for i in range(self.p):\n                if self._random_forests[i, k] is None:",
    "a child with a smaller index than one of its parents: predicted from zeros")
mut("c19_data_not_deepcopied", "C19", "sempler/semi.py",
    "        self._data = copy.deepcopy(data)", "        self._data = list(data)",
    "caller modifies its data after fitting")
mut("c19_sources_share_seed_again", "C19", "sempler/semi.py",
    "                        self._data[k][:, i], n[k], random_state=rng",
    "                        self._data[k][:, i], n[k], random_state=random_state",
    "two source nodes and an integer seed (the defect fixed in e4b741c)")
mut("c19_non_sources_unseeded_again", "C19", "sempler/semi.py",
    "        np.random.seed(rng.integers(2**32)) if random_state is not None else None\n",
    "",
    "a non-source node, a seed, and a perturbed global generator between two calls (fixed in cedd677)")
mut("c19_seed_truthy", "C19", "sempler/semi.py",
    "        np.random.seed(rng.integers(2**32)) if random_state is not None else None\n",
    "        np.random.seed(rng.integers(2**32)) if random_state else None\n",
    "seed 0, a non-source node with peer k >= 2, perturbed global generator")
mut("c19_n_length_unchecked_again", "C19", "sempler/semi.py",
    "            if len(n) != self.e:\n                raise ValueError(\"n must contain one sample size per environment\")\n",
    "",
    "n given as a list of the wrong length (fixed in 46aead7)")
mut("c19_column_check_removed", "C19", "sempler/semi.py",
    "                elif sample.shape[1] != graph.shape[1]:",
    "                elif False:",
    "data with a wrong number of columns is accepted")
mut("c19_fit_with_node_among_regressors", "C19", "sempler/semi.py",
    "                    X = pd.DataFrame(self._data[k][:, sorted(parents)])",
    "                    X = pd.DataFrame(self._data[k][:, sorted(parents | {i})])",
    "any non-source node: the forest is fitted with the response among the regressors")
mut("c19_prediction_into_wrong_column", "C19", "sempler/semi.py",
    "                    sample[:, i] = output.sample[:, 0, 0]",
    "                    sample[:, sorted(parents)[-1] if len(parents) > 1 else i] = output.sample[:, 0, 0]",
    "a node with at least two parents")
mut("c19_n_zero_accepted", "C19", "sempler/semi.py",
    "        elif type(n) == int and n <= 0:",
    "        elif type(n) == int and n < 0:",
    "n=0 returns empty arrays instead of the documented ValueError")
mut("c19_draw_ignores_the_weights", "C19", "drf/code.py",
    "                  ids = np.random.choice(range(Y.shape[0]), 1, p=weights[i, :])[0]",
    "                  ids = np.random.choice(np.flatnonzero(weights[i, :] > 0), 1)[0]",
    "weight rows that are not uniform on their support, and enough rows for a frequency test")
mut("c19_draw_from_truncated_weights", "C19", "drf/code.py",
    "                  ids = np.random.choice(range(Y.shape[0]), 1, p=weights[i, :])[0]",
    "                  wi = np.where(weights[i, :] > 1e-2 * weights[i, :].max(), weights[i, :], 0.0)\n"
    "                  ids = np.random.choice(range(Y.shape[0]), 1, p=wi / wi.sum())[0]",
    "long-tailed weight rows and many rows")

EXTRA = {
    "c14_lganm_modify_restore_no_finally": ("sempler/lganm.py",
        "        if not population:\n            return distribution.sample(n, random_state=random_state)\n        else:\n            return distribution",
        "        self.W[:] = saved_W\n        if not population:\n            return distribution.sample(n, random_state=random_state)\n        else:\n            return distribution"),
    "c13_intervention_targets_generator_cache": ("sempler/generators.py",
        "def intervention_targets(p, K, size, replace=True, random_state=None):",
        "_RNG_CACHE = {}\n\n\ndef intervention_targets(p, K, size, replace=True, random_state=None):"),
}


def main():
    os.makedirs(OUT, exist_ok=True)
    for f in os.listdir(OUT):
        if f.endswith(".patch") or f == "catalogue.json":
            os.unlink(os.path.join(OUT, f))
    cat = []
    for name, prop, path, old, new, needs in M:
        edits = [(path, old, new)]
        if name in EXTRA:
            edits.append(EXTRA[name])
        files = {}
        for pth, o, nw in edits:
            src = files.get(pth) or open(os.path.join(REPO, pth)).read()
            if src.count(o) != 1:
                print("SKIP %s: anchor occurs %d times in %s" % (name, src.count(o), pth))
                files = None
                break
            files[pth] = src.replace(o, nw)
        if files is None:
            continue
        diff = []
        for pth, newsrc in files.items():
            oldsrc = open(os.path.join(REPO, pth)).read()
            diff += difflib.unified_diff(oldsrc.splitlines(True), newsrc.splitlines(True), "a/" + pth, "b/" + pth)
        with open(os.path.join(OUT, name + ".patch"), "w") as f:
            f.write("".join(diff))
        cat.append({"name": name, "property": prop, "files": sorted(files), "needs": needs})
    with open(os.path.join(OUT, "catalogue.json"), "w") as f:
        json.dump(cat, f, indent=1)
    print("%d mutants written to %s" % (len(cat), OUT))


if __name__ == "__main__":
    main()
