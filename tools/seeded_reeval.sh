#!/bin/bash
# Re-evaluate recorded changes (seeded/<id>/) against the checks as they are now; the suite result is taken from the
# earlier confirmation.  usage: tools/seeded_reeval.sh [id ...]   (default: all);  summary lines go to stdout
cd "$(dirname "$0")/.."
ids="$@"
[ -z "$ids" ] && ids=$(ls seeded | grep -v DESCRIPTIONS)
for id in $ids; do
  [ -f seeded/$id/patch.diff ] || continue
  prop=$(/venv/bin/python -c "import json;print(json.load(open('seeded/$id/meta.json'))['property'])")
  tmp=$(mktemp -d /tmp/reeval_XXXX); cp seeded/$id/* $tmp/ 2>/dev/null
  extra=""; [ "$id" = "c19f_2" ] && extra="--thorough 600"
  out=$(tools/seeded_eval.py $tmp $id $prop --skip-suite $extra 2>&1 | grep "^check\|^thorough\|^demo" | tr '\n' ' ' | cut -c1-330)
  echo "$id $prop $out"
  rm -rf $tmp
done
