#!/venv/bin/python
"""Run the checks against an independently written BENIGN change (a refactoring that keeps the
property): every check must stay silent.

  tools/benign_eval.py <source dir with patch.diff, notes.md> <id> <property> [--skip-suite]
Records /verif/benign/<id>/{patch.diff, notes.md, meta.json}.
"""
import json
import os
import shutil
import subprocess
import sys
import tempfile

HERE = os.path.dirname(os.path.dirname(os.path.abspath(__file__)))
REPO = "/repo"


def run(cmd, cwd=None, env=None, timeout=3000):
    e = dict(os.environ)
    e.pop("PYTHONHASHSEED", None)
    e["PYTHONDONTWRITEBYTECODE"] = "1"
    if env:
        e.update(env)
    return subprocess.run(cmd, cwd=cwd, env=e, capture_output=True, text=True, timeout=timeout)


def main():
    src, bid, prop = sys.argv[1:4]
    d = tempfile.mkdtemp(prefix="semsim_benign_")
    meta = {"id": bid, "written_for_property": prop, "checks": {}}
    try:
        repo = os.path.join(d, "repo")
        shutil.copytree(REPO, repo, ignore=shutil.ignore_patterns(".git", "__pycache__", ".benchmarks"))
        p = run(["patch", "-p1", "-s", "-i", os.path.abspath(os.path.join(src, "patch.diff"))], cwd=repo)
        if p.returncode != 0:
            print("patch failed", p.stdout)
            return 1
        if "--skip-suite" not in sys.argv:
            t = run(["/venv/bin/python", "-m", "pytest", "-q", "-p", "no:cacheprovider", "--timeout=900",
                     "--continue-on-collection-errors", "--ignore=sempler/test/test_semi.py"], cwd=repo,
                    env={"PYTHONPATH": repo})
            meta["suite_with_change"] = t.stdout.strip().splitlines()[-1] if t.stdout.strip() else ""
            print("suite:", meta["suite_with_change"])
        for pr in ("C13", "C14", "C19"):
            c = run([os.path.join(HERE, "check"), pr, "--repo", repo, "--no-evidence", "--replay-dir",
                     os.path.join(d, "replays")])
            viol = [ln[:400] for ln in c.stdout.splitlines() if ln.startswith("violation:")]
            meta["checks"][pr] = {"rc": c.returncode, "violations": viol[:3]}
            print("%s rc=%d %s" % (pr, c.returncode, viol[0][:250] if viol else ""))
            if c.returncode == 2:
                print(c.stdout[-1200:])
        meta["silent"] = all(v["rc"] == 0 for v in meta["checks"].values())
        out = os.path.join(HERE, "benign", bid)
        os.makedirs(out, exist_ok=True)
        for f in ("patch.diff", "notes.md"):
            if os.path.exists(os.path.join(src, f)):
                shutil.copy(os.path.join(src, f), os.path.join(out, f))
        json.dump(meta, open(os.path.join(out, "meta.json"), "w"), indent=1)
    finally:
        shutil.rmtree(d, ignore_errors=True)
    return 0


if __name__ == "__main__":
    sys.exit(main())
