#!/bin/bash
# Run, for every recorded benign change, the quick check of the property it was written for against a scratch copy of
# /repo with the change applied (outside /repo and /verif, removed afterwards).  One summary line per change.
cd "$(dirname "$0")/.."
for b in $(ls benign | grep -v README); do
  [ -f benign/$b/patch.diff ] || continue
  prop=$(/venv/bin/python -c "import json;print(json.load(open('benign/$b/meta.json')).get('written_for_property','C14'))")
  d=$(mktemp -d /tmp/benign_XXXX); cp -r /repo $d/repo; rm -rf $d/repo/.git
  (cd $d/repo && patch -p1 -s < /verif/benign/$b/patch.diff) || { echo "$b patch failed"; rm -rf $d; continue; }
  out=$(./check $prop --repo $d/repo --no-evidence --replay-dir $d/replays 2>&1 | grep -a "^violation\|HARNESS\|$prop:" | head -3 | tr '\n' ' ' | cut -c1-300)
  echo "$b $prop $out"
  rm -rf $d
done
