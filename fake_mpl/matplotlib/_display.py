"""The display's message log and its fault hook.  HOOK(kind) is called for every request the library
sends to the display; the simulator installs a seam there that can make the k-th request of one library
operation fail (no display, backend error)."""
import numpy as np

LOG = []
HOOK = None


def message(kind, *payload):
    if HOOK is not None:
        HOOK(kind)
    rec = [kind]
    for x in payload:
        if isinstance(x, np.ndarray):
            rec.append(np.array(x, copy=True))        # like matplotlib, the display keeps its own copy
        elif isinstance(x, dict):
            rec.append(dict(x))
        else:
            rec.append(x)
    LOG.append(rec)


def reset():
    del LOG[:]
