"""Simulated display: stands in for matplotlib inside the checker's process (DESIGN 12.1, "display peer").
Only what sempler/plot.py uses is provided; every request is recorded in `_display.LOG`."""
__version__ = "0.0+simulated-display"
from . import _display  # noqa: F401
