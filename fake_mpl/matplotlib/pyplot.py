"""pyplot of the simulated display."""
import numpy as np

from . import _display


class Axes:
    def imshow(self, A, **kw):
        _display.message("imshow", np.asarray(A), kw)
        return object()

    def text(self, x, y, s, **kw):
        _display.message("text", x, y, s, kw)
        return object()

    def set_axis_off(self):
        _display.message("axis_off")


class Figure:
    def __init__(self):
        self.axes = Axes()

    def set_facecolor(self, c):
        _display.message("facecolor", c)

    def gca(self):
        return self.axes


_current = [None]


def figure(*a, **k):
    _display.message("figure")
    _current[0] = Figure()
    return _current[0]


def gcf():
    if _current[0] is None:
        return figure()
    return _current[0]


def gca():
    return gcf().axes


def show(*a, **k):
    _display.message("show", k)


def close(*a, **k):
    _display.message("close")
    _current[0] = None
