"""The R process, simulated: deterministic k-nearest-row 'forest', message log, faults.

The peer never touches Python-side state such as numpy's generators (a real R process
cannot), and it copies everything it is sent.
"""
import numpy as np


class RRuntimeError(Exception):
    pass


class Forest:
    def __init__(self, fid, X, Y, params):
        self.fid = fid
        self.X = X
        self.Y = Y
        self.params = params
        self.variable_importance = None


class Peer:
    def __init__(self):
        self.reset({})

    def reset(self, config):
        self.k = int(config.get("k", 1))
        self.slack = bool(config.get("slack", False))
        self.uniform = bool(config.get("uniform", False))      # equal weight on the k nearest rows
        self.tail = float(config.get("tail", 0) or 0)          # every other row: this fraction of the largest weight
        self.y_as = config.get("y_as", "matrix")
        self.log = []          # ('fit', fid, X, Y, params) / ('predict', fid, newdata, weights)
        self.nforests = 0      # (no reference to a forest object is kept here: like an rpy2 proxy, it dies with its last
                               #  Python reference, and its address may be used again)
        self.counts = {"fit": 0, "predict": 0}
        self.armed = {}        # 'fit'/'predict' -> message number (1-based, counted from arming) that fails
        self.since = {"fit": 0, "predict": 0}
        self.fired = 0
        self.clock = 0

    def arm(self, on, nth):
        self.armed[on] = int(nth)
        self.since[on] = 0

    def disarm(self):
        pending = bool(self.armed)
        self.armed = {}
        return pending

    def _maybe_fail(self, kind):
        self.counts[kind] += 1
        self.clock += 1
        if kind in self.armed:
            self.since[kind] += 1
            if self.since[kind] == self.armed[kind]:
                del self.armed[kind]
                self.fired += 1
                raise RRuntimeError("Error in %s: injected by simulator" % kind)

    # -- messages ---------------------------------------------------------------
    def fit(self, X, Y, params):
        self._maybe_fail("fit")
        X = np.array(np.asarray(X), dtype=float, copy=True)
        Y = np.array(np.asarray(Y), dtype=float, copy=True)
        if X.ndim == 1:
            X = X.reshape(-1, 1)
        if Y.ndim == 1:
            Y = Y.reshape(-1, 1)
        f = Forest(self.nforests, X, Y, dict(params))
        self.nforests += 1
        self.log.append(("fit", f.fid, X.copy(), Y.copy(), dict(params)))
        return f

    def predict(self, forest, newdata):
        self._maybe_fail("predict")
        Q = np.array(np.asarray(newdata), dtype=float, copy=True)
        if Q.ndim == 1:
            Q = Q.reshape(-1, 1)
        N = len(forest.X)
        k = min(self.k, N)
        w = np.ones(k, dtype=float) if self.uniform else np.arange(k, 0, -1, dtype=float)
        tailw = self.tail * w.max() if (self.tail and not self.uniform) else 0.0
        norm = w.sum() + (N - k) * tailw
        w = w / norm
        W = np.full((len(Q), N), tailw / norm, dtype=float)
        for lo in range(0, len(Q), 512):        # bounded memory for very large queries
            q = Q[lo:lo + 512]
            D = ((forest.X[None, :, :] - q[:, None, :]) ** 2).sum(axis=2)
            order = np.argsort(D, axis=1, kind="stable")[:, :k]
            W[np.arange(lo, lo + len(q))[:, None], order] = w[None, :]
        if self.slack:
            W = W * (1.0 + 1e-13)
        self.log.append(("predict", forest.fid, Q.copy(), W.copy() if W.size < 4000000 else W))
        Y = forest.Y.copy()
        return [W, Y]


PEER = Peer()
