from .._peer import RRuntimeError  # noqa: F401
