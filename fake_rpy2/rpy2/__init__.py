"""Simulated R peer for sempler's DRFNet (DESIGN 5.1).

This package stands in for rpy2 inside the checker process only: it is put first on
sys.path by semsim.boot before `sempler` is imported.  It provides exactly the names that
drf/code.py uses.  The "R side" is `rpy2._peer`: a deterministic stand-in forest that
records every message it receives and can be told to fail.
"""
__version__ = "0.0-simulated"
from . import _peer  # noqa: F401
