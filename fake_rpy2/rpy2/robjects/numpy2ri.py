def activate():
    return None
