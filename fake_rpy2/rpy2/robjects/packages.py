import numpy as np

from .._peer import PEER


class PackageNotInstalledError(Exception):
    pass


class _Base:
    @staticmethod
    def as_matrix(x):
        return np.array(x, copy=True)


class _Drf:
    @staticmethod
    def drf(X_r, Y_r, **params):
        return PEER.fit(X_r, Y_r, params)

    @staticmethod
    def predict_drf(fit_object, newdata_r):
        return PEER.predict(fit_object, newdata_r)

    @staticmethod
    def print_drf(fit_object):
        return None

    @staticmethod
    def variableImportance(fit_object):
        return np.zeros(fit_object.X.shape[1])


def importr(name):
    if name == "base":
        return _Base()
    if name == "drf":
        return _Drf()
    raise PackageNotInstalledError(name)
