def activate():
    return None
