"""rpy2.robjects stand-in: conversion.py2rpy, r(), numpy2ri, pandas2ri, packages."""
import numpy as np

from . import numpy2ri, pandas2ri, packages  # noqa: F401


class _Conversion:
    @staticmethod
    def py2rpy(obj):
        # R receives a copy of the data frame's values
        return np.array(np.asarray(obj), copy=True)


conversion = _Conversion()


def r(code):
    return None
